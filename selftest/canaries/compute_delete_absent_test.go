package xsync

// Canary / replay for the C11 defect fixed by "fix: Compute deleting an absent key returns the zero value on every
// bucket layout": found as the failing obligation C11+C03/(*xsync.Map).doCompute/post.deleted on the path
// "chain full, no empty slot, new bucket needed" (the returned value must not depend on the bucket layout).

import "testing"

func TestReplayComputeDeleteAbsentLayoutIndependent(t *testing.T) {
	// all keys collide: one chain; 5 entries fill the root bucket of MapOf completely
	m := NewMapOfWithHasher[int, int](func(int, uint64) uint64 { return 0 })
	probe := func() (int, bool) {
		return m.Compute(1000, func(old int, loaded bool) (int, bool) { return 99, true })
	}
	v0, ok0 := probe() // chain has empty slots
	for i := 0; i < 5; i++ {
		m.Store(i, i)
	}
	v1, ok1 := probe() // chain is full: the new-bucket path
	if v0 != 0 || ok0 || v1 != 0 || ok1 {
		t.Fatalf("Compute(absent, delete=true) = (%d,%v) with free slots, (%d,%v) with a full chain; want (0,false) both times", v0, ok0, v1, ok1)
	}
	mm := NewMap()
	// Map: 3 entries per bucket; find 4 keys of one bucket via the table's own seed
	table := (*mapTable)(mm.table)
	var keys []string
	for i := 0; len(keys) < 4; i++ {
		k := string(rune('a'+i%26)) + string(rune('0'+i/26%10)) + string(rune('A'+i/260%26))
		if uint64(len(table.buckets)-1)&hashString(k, table.seed) == 0 {
			keys = append(keys, k)
		}
	}
	for _, k := range keys[:3] {
		mm.Store(k, 1)
	}
	v, ok := mm.Compute(keys[3], func(old interface{}, loaded bool) (interface{}, bool) { return 99, true })
	if v != nil || ok {
		t.Fatalf("Map.Compute(absent, delete=true) with a full chain = (%v,%v), want (nil,false)", v, ok)
	}
}
