package cache

// Canary / replay for the C02+C06 defect fixed by "fix: DeleteExpired re-checks expiry under the bucket lock":
// the environment step found by the verifier (a fresh value stored between the Range visit and the removal)
// is injected deterministically by an interposing Map placed in c.items.

import (
	"testing"
	"time"
)

type interposeMap struct {
	Map
	hook func(k string)
}

func (m *interposeMap) fire(k string) {
	if m.hook != nil {
		h := m.hook
		m.hook = nil
		h(k)
	}
}

func (m *interposeMap) Delete(k string) { m.fire(k); m.Map.Delete(k) }

func (m *interposeMap) Compute(k string, f func(interface{}, bool) (interface{}, bool)) (interface{}, bool) {
	m.fire(k)
	return m.Map.Compute(k, f)
}

func TestReplayDeleteExpiredInterference(t *testing.T) {
	cw := newXsyncMap(Config{CleanupInterval: 0}).(*xsyncMapWrapper)
	c := cw.xsyncMap
	var fired []kv
	c.SetEvictedCallback(func(k string, v interface{}) { fired = append(fired, kv{k, v}) })
	c.Set("k", "old", time.Nanosecond)
	time.Sleep(2 * time.Millisecond)
	real := c.items
	c.items = &interposeMap{Map: real, hook: func(k string) {
		// another goroutine completes Set(k, "fresh", NoExpiration) right here
		real.Store(k, item{v: "fresh", e: 0})
	}}
	c.DeleteExpired()
	c.items = real
	v, ok := c.Get("k")
	if !ok || v != "fresh" {
		t.Errorf("unexpired value written by a completed Set was lost: Get(k) = %v %v, callbacks=%v", v, ok, fired)
	}
	for _, f := range fired {
		if f.v == "fresh" {
			t.Errorf("callback fired for a value that is still retrievable: %v", fired)
		}
	}
	if len(fired) == 1 && fired[0].v == "old" && ok {
		// old value was replaced, not removed by this call: firing for it is a C06 violation too
		t.Errorf("callback fired for a value that had already been replaced: %v", fired)
	}
}
