package xsync

// Canary / replay for the C03/C04 defect "Clear that loses the race for the resize flag returns without clearing": found as
// the failing obligation C03+C11/(*xsync.Map).resize/post.cleared on the path where the CAS on m.resizing fails (the
// call waits for the running resize and returns).  The test plays the part of the other resizer: it holds the flag,
// lets Clear run into it, then finishes "its resize" (flag down + broadcast, exactly what resize does at its end).
// C03: once Clear has returned, no entry whose store completed before Clear began is still present.

import (
	"sync/atomic"
	"testing"
	"time"
)

func TestReplayClearWhileAnotherResizeRuns(t *testing.T) {
	m := NewMap()
	m.Store("k", 1) // completed before Clear begins
	atomic.StoreInt64(&m.resizing, 1)
	done := make(chan struct{})
	go func() { m.Clear(); close(done) }()
	time.Sleep(50 * time.Millisecond) // Clear is now waiting for "the other resize"
	m.resizeMu.Lock()
	atomic.StoreInt64(&m.resizing, 0)
	m.resizeCond.Broadcast()
	m.resizeMu.Unlock()
	<-done
	if _, ok := m.Load("k"); ok || m.Size() != 0 {
		t.Fatalf("Map: Clear returned but the entry stored before it is still present (Size=%d)", m.Size())
	}

	mo := NewMapOf[string, int]()
	mo.Store("k", 1)
	atomic.StoreInt64(&mo.resizing, 1)
	done2 := make(chan struct{})
	go func() { mo.Clear(); close(done2) }()
	time.Sleep(50 * time.Millisecond)
	mo.resizeMu.Lock()
	atomic.StoreInt64(&mo.resizing, 0)
	mo.resizeCond.Broadcast()
	mo.resizeMu.Unlock()
	<-done2
	if _, ok := mo.Load("k"); ok || mo.Size() != 0 {
		t.Fatalf("MapOf: Clear returned but the entry stored before it is still present (Size=%d)", mo.Size())
	}
}
