#!/usr/bin/env python3
"""Regenerate the generic twin's contract region from the non-generic twin's region (one-off editing aid; the C12 check
independently diffs the two regions on every run)."""
import re, sys
p = sys.argv[1]          # contract file
a, b = sys.argv[2], sys.argv[3]   # e.g. Cache CacheOf
s = open(p).read()
i = s.index('//@ -- twin-begin %s\n' % a)
j = s.index('//@ -- twin-end %s\n' % a) + len('//@ -- twin-end %s\n' % a)
region = s[i:j]
of = region
if a == 'Cache':
    subs = [(r'\(\*xsyncMap\)\.', '(*xsyncMapOf[K, V]).'), (r'\(\*item\)\.', '(*itemOf[V]).'),
            (r'\bIE\(', 'IEOf('), (r'\bIV\(', 'IVOf('), (r'\bITEM\(', 'ITEMOf('), (r'\blive\(', 'liveOf('), (r'\bliveV\(', 'liveVOf('),
            (r'\bliveMap\(', 'liveMapOf('), (r'\bremovedEntry\(', 'removedEntryOf('),
            (r'\bEC\(', 'ECOf('), (r'\bcacheInv\(', 'cacheInvOf('), (r'\bcfgOK\(', 'cfgOKOf('),
            (r': string ::', ': K ::'), (r'\(\*xsync\.Map\)', '(*xsync.MapOf[K, V])'),
            (r'\bDefaultConfig\b', 'DefaultConfigOf'), (r'\bconfigDefault\b', 'configDefaultOf'),
            (r'\bWith(\w+)\$1', r'With\1Of$1'), (r'\bNewMapPresized\b', 'NewMapOfPresized'),
            (r'\bnewXsyncMapDefault\b', 'newXsyncMapOfDefault'), (r'\bnewXsyncMap\b', 'newXsyncMapOf'),
            (r'\bxsyncMapWrapper\b', 'xsyncMapOfWrapper'), (r'\.xsyncMap\b', '.xsyncMapOf'),
            ('twin-begin Cache', 'twin-begin CacheOf'), ('twin-end Cache', 'twin-end CacheOf')]
    for x, y in subs:
        of = re.sub(x, y, of)
    of = re.sub(r'//@ define IEOf\(x\) = .*', '//@ define IEOf(x) = x.e', of)
    of = re.sub(r'//@ define IVOf\(x\) = .*', '//@ define IVOf(x) = x.v', of)
    of = re.sub(r'//@ define ITEMOf\(v, e\) = .*', '//@ define ITEMOf(v, e) = mk(itemOf, v, e)', of)
    of = re.sub(r'//@ define allItems.*\n', '', of)
    of = re.sub(r'//@ define ECOf\(c\) = .*', '//@ define ECOf(c) = c.evictedCallback.v.(EvictedCallbackOf)', of)
    of = re.sub(r'//@ define cacheInvOf\(c\) = .*', '//@ define cacheInvOf(c) = c != nil && cfgOKOf(c) && c.items != nil && mapInv(c.items)', of)
    of = of.replace('// Cache (string keys, interface{} values).', '// CacheOf[K, V] (generic twin).').replace('Stored values are boxed `item`s.', 'Stored values are itemOf[V] structs.')
else:
    of = of.replace('(*Map).', '(*MapOf[K, V]).').replace('twin-begin Map', 'twin-begin MapOf').replace('twin-end Map', 'twin-end MapOf')
    of = of.replace('(*bucketPadded)', '(*bucketOfPadded)')
k = s.index('//@ -- twin-begin %s\n' % b)
l = s.index('//@ -- twin-end %s\n' % b) + len('//@ -- twin-end %s\n' % b)
s = s[:k] + of + s[l:]
open(p, 'w').write(s)
print('regenerated', b, 'from', a)
