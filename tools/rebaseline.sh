#!/bin/sh
# regenerate baseline obligation names for every claimed property (run on the unchanged tree only)
cd "$(dirname "$0")/.."
for p in $(python3 -c "import json;print(' '.join(c['property_id'] for c in json.load(open('MANIFEST.json'))['checks']))"); do
  ./check $p --write-baseline 2>&1 | tail -1
done
