#!/usr/bin/env python3
"""record_seed.py <seed dir> <id> <property> <dest-rel> <run regex> <caught-by comma list or -> <needs text>"""
import sys, os, shutil, json, time
src, sid, prop, dest, run, caught, needs = sys.argv[1:8]
d = os.path.join('/verif/seeded', sid)
os.makedirs(d, exist_ok=True)
for f in ('patch.diff', 'demo_test.go', 'notes.md'):
    if os.path.exists(os.path.join(src, f)):
        shutil.copy(os.path.join(src, f), os.path.join(d, f))
meta = {
    'id': sid, 'property': prop,
    'breaks': open(os.path.join(src, 'notes.md')).read().split('\n')[0].lstrip('# ').strip(),
    'needs_to_manifest': needs,
    'demo': {'copy_to': dest, 'cmd': "go test -vet=off -count=1 -run '%s' ./%s" % (run, dest)},
    'confirmed': 'tools/seedtest.sh: demo passes on unchanged tree (branch seedbase), fails with the patch; existing suite passes with the patch',
    'caught_by': [c for c in caught.split(',') if c and c != '-'],
    'origin': 'independent sub-agent given only the property text and a scratch worktree',
    'recorded': time.strftime('%Y-%m-%d'),
}
json.dump(meta, open(os.path.join(d, 'meta.json'), 'w'), indent=1)
print('recorded', d)
