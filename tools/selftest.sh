#!/bin/bash
# selftest.sh [id-regex]: must-fail corpus.  Every recorded seeded change (seeded/<id>/patch.diff) is applied to a scratch
# copy of /repo's working tree; the first check listed in its meta.json `caught_by` must report a VIOLATION of that
# property, and (control) the same check must pass on the unpatched copy.  Scratch lives under $TMPDIR and is removed.
cd /verif
export GOFLAGS=-mod=mod GOPROXY=off GOSUMDB=off GOTOOLCHAIN=local
fail=0
for d in seeded/*/; do
  id=$(basename $d)
  [ "$id" = "_pending" ] && continue
  [ -n "$1" ] && ! echo "$id" | grep -qE "$1" && continue
  pid=$(python3 -c "import json;m=json.load(open('$d/meta.json'));print((m.get('caught_by') or [''])[0])")
  if [ -z "$pid" ]; then echo "SKIP $id (recorded as not caught by any check)"; continue; fi
  S=$(mktemp -d ${TMPDIR:-/tmp}/selftest.XXXXXX)
  rsync -a --exclude .git /repo/ $S/
  (cd $S && patch -p1 -s --no-backup-if-mismatch < /verif/$d/patch.diff) || { echo "FAIL $id: patch does not apply"; fail=1; rm -rf $S; continue; }
  out=$(timeout 1800 python3-vt engine/check.py $pid --repo $S 2>&1)
  if echo "$out" | grep -q "^VIOLATION property=$pid"; then echo "PASS $id: $pid reports $(echo "$out" | grep -c '^VIOLATION') violation(s)"; else echo "FAIL $id: $pid is silent"; fail=1; fi
  rm -rf $S
done
exit $fail
