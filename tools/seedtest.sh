#!/bin/bash
# seedtest.sh <seed dir with patch.diff, demo_test.go> <demo dest dir relative to repo root> <go test -run regex> [PIDs...]
# 1. confirms in a scratch worktree (branch seedbase) that the suite passes with the patch and the demo fails with / passes without it
# 2. applies the patch to a scratch copy of /repo's working tree (with the contract files) and runs the given checks on it.
set -u
export GOFLAGS=-mod=mod GOPROXY=off GOSUMDB=off GOTOOLCHAIN=local
SEED=$1; DEST=$2; RUN=$3; shift 3
W=$(mktemp -d /tmp/seedchk.XXXXXX); rmdir $W
git -C /repo worktree add -q --detach $W seedbase || exit 3
PKG=./$DEST
cp $SEED/demo_test.go $W/$DEST/zz_demo_test.go
(cd $W && timeout 300 go test -vet=off -count=1 -run "$RUN" $PKG >$W.nopatch.log 2>&1); R0=$?
(cd $W && git apply $SEED/patch.diff) || { echo "PATCH DOES NOT APPLY to seedbase"; git -C /repo worktree remove --force $W; exit 3; }
(cd $W && timeout 300 go test -vet=off -count=1 -run "$RUN" $PKG >$W.patch.log 2>&1); R1=$?
rm $W/$DEST/zz_demo_test.go
(cd $W && go build ./... && timeout 600 go test -vet=off -count=1 ./... >$W.suite.log 2>&1); R2=$?
echo "demo without patch: exit $R0 (want 0); demo with patch: exit $R1 (want !=0); suite with patch: exit $R2 (want 0)"
git -C /repo worktree remove --force $W; rm -f $W.*.log
if [ $# -gt 0 ]; then
  S=$(mktemp -d /tmp/seedrepo.XXXXXX)
  rsync -a --exclude .git /repo/ $S/
  (cd $S && patch -p1 -s --no-backup-if-mismatch < $SEED/patch.diff) || { echo "PATCH DOES NOT APPLY TO /repo copy"; rm -rf $S; exit 3; }
  for P in "$@"; do
    timeout 1200 python3-vt /verif/engine/check.py $P --repo $S 2>&1 | grep -E "^VIOLATION|^KNOWN|^$P:|^govc" | sed "s#$S#REPO#g" | cut -c1-200 | head -12
  done
  rm -rf $S
fi
