#!/bin/bash
# seedtest.sh <seed dir with patch.diff, demo_test.go, notes.md> <demo dest dir relative to repo root> <go test -run regex> [PIDs...]
# 1. confirms in a scratch worktree (branch seedbase) that the suite passes with the patch and the demo fails with / passes without it
# 2. applies the patch to /repo, runs the given checks, reverts.
set -u
export GOFLAGS=-mod=mod GOPROXY=off GOSUMDB=off GOTOOLCHAIN=local
SEED=$1; DEST=$2; RUN=$3; shift 3
W=$(mktemp -d /tmp/seedchk.XXXXXX); rmdir $W
git -C /repo worktree add -q --detach $W seedbase || exit 3
PKG=./$DEST
cp $SEED/demo_test.go $W/$DEST/zz_demo_test.go
(cd $W && go test -vet=off -count=1 -run "$RUN" $PKG >/tmp/seed_nopatch.log 2>&1); R0=$?
(cd $W && git apply $SEED/patch.diff) || { echo "PATCH DOES NOT APPLY"; git -C /repo worktree remove --force $W; exit 3; }
(cd $W && go test -vet=off -count=1 -run "$RUN" $PKG >/tmp/seed_patch.log 2>&1); R1=$?
rm $W/$DEST/zz_demo_test.go
(cd $W && go build ./... && go test -vet=off -count=1 ./... >/tmp/seed_suite.log 2>&1); R2=$?
echo "demo without patch: exit $R0 (want 0); demo with patch: exit $R1 (want !=0); suite with patch: exit $R2 (want 0)"
git -C /repo worktree remove --force $W
# run the checks on /repo with the patch
if [ $# -gt 0 ]; then
  git -C /repo apply $SEED/patch.diff || { echo "PATCH DOES NOT APPLY TO /repo"; exit 3; }
  for P in "$@"; do
    /verif/check $P 2>&1 | grep -E "^VIOLATION|^KNOWN|^$P:|^govc" | cut -c1-220
  done
  git -C /repo checkout -- .
fi
