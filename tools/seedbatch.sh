#!/bin/bash
# seedbatch.sh: run the pending seeds listed in tools/seedplan.txt (<P>/<i> <checks...>) through seedtest.sh
cd /verif
while read -r SEED PIDS; do
  [ -z "$SEED" ] && continue
  [ -n "$ONLY" ] && ! echo "$SEED" | grep -qE "$ONLY" && continue
  d=seeded/_pending/$SEED
  dest=$(grep -m1 -oE "^package [a-z]+" $d/demo_test.go | awk '{print $2}')
  if [ "$dest" = "xsync" ]; then DEST=internal/xsync; else DEST=.; fi
  RUN=$(grep -oE "func (Test[A-Za-z0-9_]+)" $d/demo_test.go | awk '{print $2}' | paste -sd'|')
  echo "=== $SEED dest=$DEST run=$RUN pids=$PIDS"
  tools/seedtest.sh /verif/$d $DEST "$RUN" $PIDS </dev/null
done < tools/seedplan.txt
