#!/bin/bash
# seedbatch.sh: run every pending seed (seeded/_pending/<P>/<i>) through seedtest.sh with the checks that could see it
cd /verif
for d in seeded/_pending/*/*/; do
  P=$(basename $(dirname $d)); I=$(basename $d)
  [ -n "$ONLY" ] && ! echo "$P/$I" | grep -qE "$ONLY" && continue
  dest=$(grep -m1 -oE "^package [a-z]+" $d/demo_test.go | awk '{print $2}')
  if [ "$dest" = "xsync" ]; then DEST=internal/xsync; else DEST=.; fi
  RUN=$(grep -oE "func (Test[A-Za-z0-9_]+)" $d/demo_test.go | awk '{print $2}' | paste -sd'|')
  files=$(grep -E "^\+\+\+ " $d/patch.diff | tr '\n' ' ')
  case "$files" in
    *internal/xsync*) PIDS="$P C03 C04 C05 C08 C10 C11 C13 C14 C16 C07";;
    *) PIDS="$P C01 C02 C05 C06 C07 C09 C13 C14 C15 C16";;
  esac
  PIDS=$(echo $PIDS | tr ' ' '\n' | awk '!s[$0]++' | tr '\n' ' ')
  echo "=== $P/$I dest=$DEST run=$RUN pids=$PIDS"
  tools/seedtest.sh /verif/$d $DEST "$RUN" $PIDS
done
