"""Parser for the contract comment files (//@ lines) and their expression language.

File structure (all lines start with //@):

  define name(a, b) = expr                      macro (pure, expanded at use)
  ghost name : kind                              ghost state declaration (see spec.py)
  assume name: text                              documented, unchecked assumption (goes to evidence)
  func <receiver-and-name>                       starts a function contract; following clauses:
    mode seq | intf | both
    requires expr
    ensures {C01,C09} label: expr                (tags and label optional)
    let x = expr                                 binding visible to later clauses (evaluated in post context)
    calls f(args) -> (a, b)                      higher-order clause: f is invoked exactly once with args
    modifies expr, expr                          frame
    loop <id>: invariant|decreases|unroll ...
    effect nolock nowait
    serves C01 C02
    lp <callname>
    at <callname>: invariant expr                invariant for a higher-order call (Range)

Continuation lines: a line that does not start with a clause keyword continues the previous clause.
"""
import re

KEYWORDS = ('purefn', 'define', 'ghost', 'assume', 'func', 'mode', 'requires', 'ensures', 'let', 'calls', 'modifies', 'loop',
            'effect', 'serves', 'lp', 'at', 'lemma', 'trusted', 'iterates', 'spawns', 'note', 'inline', 'twin',
            'pure', 'opaque', 'check', 'havoc', 'frame', 'reenters', 'oncall', 'ghostsync', 'onlock', 'onstore', 'onrelease')

TOK = re.compile(r'\s*(?:(\d+[a-zA-Z_0-9]*)|([A-Za-z_$][A-Za-z_0-9$]*)|(==>|<==>|==|!=|<=|>=|&&|\|\||<<|>>|&\^|::|->|[-+*/%&|^!<>()\[\]{}.,:=?])|("(?:[^"\\]|\\.)*"))')


class ParseError(Exception):
    pass


def tokenize(s):
    out = []
    i = 0
    s = s.rstrip()
    while i < len(s):
        m = TOK.match(s, i)
        if not m or m.end() == i:
            if s[i:].strip() == '':
                break
            raise ParseError('bad token at %r' % s[i:i + 20])
        i = m.end()
        if m.group(1) is not None:
            out.append(('num', m.group(1)))
        elif m.group(2) is not None:
            out.append(('id', m.group(2)))
        elif m.group(3) is not None:
            out.append(('op', m.group(3)))
        else:
            out.append(('str', m.group(4)[1:-1]))
    return out


class P:
    def __init__(self, toks, src=''):
        self.t = toks
        self.i = 0
        self.src = src

    def peek(self, k=0):
        if self.i + k < len(self.t):
            return self.t[self.i + k]
        return ('eof', '')

    def next(self):
        x = self.peek()
        self.i += 1
        return x

    def accept(self, kind, val=None):
        p = self.peek()
        if p[0] == kind and (val is None or p[1] == val):
            self.i += 1
            return True
        return False

    def expect(self, kind, val=None):
        p = self.next()
        if p[0] != kind or (val is not None and p[1] != val):
            raise ParseError('expected %s %s, got %s in %r' % (kind, val, p, self.src))
        return p

    def expr(self):
        p = self.peek()
        if p == ('id', 'lambda'):
            self.next()
            v = self.expect('id')[1]
            self.expect('op', ':')
            srt = self.sortname()
            self.expect('op', '::')
            body = self.expr()
            return ('lambda', v, srt, body)
        if p == ('id', 'forall') or p == ('id', 'exists'):
            self.next()
            vs = []
            while True:
                v = self.expect('id')[1]
                self.expect('op', ':')
                srt = self.sortname()
                vs.append((v, srt))
                if not self.accept('op', ','):
                    break
            self.expect('op', '::')
            body = self.expr()
            return (p[1], vs, body)
        if p == ('id', 'let'):
            self.next()
            v = self.expect('id')[1]
            self.expect('op', '=')
            e = self.expr()
            self.expect('id', 'in')
            body = self.expr()
            return ('let', v, e, body)
        return self.implies()

    def sortname(self):
        # a sort name: identifier possibly with dots/brackets, up to ',' or '::'
        parts = []
        depth = 0
        while True:
            p = self.peek()
            if p[0] == 'eof':
                break
            if depth == 0 and p[0] == 'op' and p[1] in (',', '::', ')'):
                break
            if p == ('op', '[') or p == ('op', '('):
                depth += 1
            if p == ('op', ']') or p == ('op', ')'):
                depth -= 1
            parts.append(p[1])
            self.next()
        return ''.join(parts)

    def implies(self):
        a = self.orx()
        if self.accept('op', '==>'):
            b = self.implies()
            return ('bin', '==>', a, b)
        if self.accept('op', '<==>'):
            b = self.implies()
            return ('bin', '<==>', a, b)
        return a

    def orx(self):
        a = self.andx()
        while self.accept('op', '||'):
            a = ('bin', '||', a, self.andx())
        return a

    def andx(self):
        a = self.cmp()
        while self.accept('op', '&&'):
            a = ('bin', '&&', a, self.cmp())
        return a

    def cmp(self):
        a = self.bor()
        p = self.peek()
        if p[0] == 'op' and p[1] in ('==', '!=', '<', '<=', '>', '>='):
            self.next()
            return ('bin', p[1], a, self.bor())
        return a

    def bor(self):
        a = self.bxor()
        while self.peek() == ('op', '|'):
            self.next()
            a = ('bin', '|', a, self.bxor())
        return a

    def bxor(self):
        a = self.band()
        while self.peek() == ('op', '^'):
            self.next()
            a = ('bin', '^', a, self.band())
        return a

    def band(self):
        a = self.shift()
        while self.peek()[0] == 'op' and self.peek()[1] in ('&', '&^'):
            op = self.next()[1]
            a = ('bin', op, a, self.shift())
        return a

    def shift(self):
        a = self.add()
        while self.peek()[0] == 'op' and self.peek()[1] in ('<<', '>>'):
            op = self.next()[1]
            a = ('bin', op, a, self.add())
        return a

    def add(self):
        a = self.mul()
        while self.peek()[0] == 'op' and self.peek()[1] in ('+', '-'):
            op = self.next()[1]
            a = ('bin', op, a, self.mul())
        return a

    def mul(self):
        a = self.unary()
        while self.peek()[0] == 'op' and self.peek()[1] in ('*', '/', '%'):
            op = self.next()[1]
            a = ('bin', op, a, self.unary())
        return a

    def unary(self):
        p = self.peek()
        if p[0] == 'op' and p[1] in ('!', '-', '^'):
            self.next()
            return ('un', p[1], self.unary())
        return self.postfix()

    def postfix(self):
        a = self.primary()
        while True:
            if self.accept('op', '.'):
                if self.accept('op', '('):
                    # type assertion x.(T)
                    tn = self.sortname()
                    self.expect('op', ')')
                    a = ('assert', a, tn)
                else:
                    a = ('field', a, self.expect('id')[1])
            elif self.accept('op', '['):
                i = self.expr()
                self.expect('op', ']')
                a = ('index', a, i)
            elif self.peek() == ('op', '(') and a[0] == 'id':
                self.next()
                args = []
                if not self.accept('op', ')'):
                    while True:
                        args.append(self.expr())
                        if self.accept('op', ')'):
                            break
                        self.expect('op', ',')
                a = ('call', a[1], args)
            else:
                return a

    def primary(self):
        p = self.next()
        if p[0] == 'num':
            s = p[1]
            if s.startswith('0x') or s.startswith('0X'):
                return ('num', int(s, 16))
            return ('num', int(s))
        if p[0] == 'id':
            return ('id', p[1])
        if p[0] == 'str':
            return ('str', p[1])
        if p == ('op', '('):
            e = self.expr()
            self.expect('op', ')')
            return e
        raise ParseError('unexpected %s in %r' % (p, self.src))


def parse_expr(s):
    p = P(tokenize(s), s)
    e = p.expr()
    if p.peek()[0] != 'eof':
        raise ParseError('trailing tokens %s in %r' % (p.t[p.i:], s))
    return e


class Clause:
    def __init__(self, kind, text, line, file):
        self.kind = kind
        self.text = text
        self.line = line
        self.file = file
        self.tags = []
        self.label = None
        self.expr = None
        self.extra = {}

    def __repr__(self):
        return 'Clause(%s %s %s)' % (self.kind, self.label, self.text[:60])


class Contract:
    def __init__(self, target, file, line):
        self.target = target      # e.g. (*xsyncMap).Get
        self.file = file
        self.line = line
        self.clauses = []
        self.fn = None            # resolved full SSA name

    def of(self, kind):
        return [c for c in self.clauses if c.kind == kind]


class SpecFile:
    def __init__(self):
        self.defines = {}     # name -> (params, expr, text)
        self.ghosts = {}      # name -> text
        self.assumes = []     # (name, text)
        self.contracts = {}   # target -> Contract
        self.lemmas = []      # Clause


TAGS = re.compile(r'^\{([A-Za-z0-9, ]+)\}\s*')
LABEL = re.compile(r'^([A-Za-z_][A-Za-z0-9_.\-]*)\s*:(?!:)\s*')


def parse_file(lines, fname, pkg, sf=None):
    """lines: list of (lineno, text) with text starting with //@"""
    sf = sf or SpecFile()
    cur = None      # current contract
    last = None     # last clause object (for continuation)
    raw = []        # (kind, text, line, contract)

    def flush():
        pass

    items = []
    for (ln, text) in lines:
        body = text[3:]
        if body.strip() == '' or body.strip().startswith('--'):
            continue
        # strip trailing comments introduced by ' -- '
        ci = body.find(' -- ')
        if ci >= 0:
            body = body[:ci]
        m = re.match(r'^\s*([a-z]+)\b(.*)$', body)
        if m and m.group(1) in KEYWORDS:
            items.append([m.group(1), m.group(2).strip(), ln])
        else:
            if not items:
                raise ParseError('%s:%d: continuation without clause' % (fname, ln))
            items[-1][1] += ' ' + body.strip()
    for kind, text, ln in items:
        if kind == 'define':
            m = re.match(r'^([A-Za-z_][A-Za-z0-9_]*)\s*\(([^)]*)\)\s*=\s*(.*)$', text)
            if not m:
                raise ParseError('%s:%d: bad define' % (fname, ln))
            params = [p.strip() for p in m.group(2).split(',') if p.strip()]
            sf.defines[m.group(1)] = (params, parse_expr(m.group(3)), m.group(3), pkg)
        elif kind == 'ghost':
            m = re.match(r'^([A-Za-z_][A-Za-z0-9_]*)\s*:\s*(.*)$', text)
            sf.ghosts[m.group(1)] = m.group(2).strip()
        elif kind == 'assume':
            m = re.match(r'^([A-Za-z_][A-Za-z0-9_.\-]*)\s*:\s*(.*)$', text)
            sf.assumes.append((m.group(1), m.group(2)))
        elif kind == 'purefn':
            sf.purefns = getattr(sf, 'purefns', set())
            sf.purefns.add(text.strip())
        elif kind == 'lemma':
            c = Clause('lemma', text, ln, fname)
            t = text
            m = TAGS.match(t)
            if m:
                c.tags = [x.strip() for x in m.group(1).split(',') if x.strip()]
                t = t[m.end():]
            m = LABEL.match(t)
            if m:
                c.label = m.group(1)
                t = t[m.end():]
            c.expr = parse_expr(t)
            c.etext = t
            c.pkg = pkg
            sf.lemmas.append(c)
        elif kind == 'func':
            cur = Contract(text.strip(), fname, ln)
            cur.pkg = pkg
            if cur.target in sf.contracts:
                raise ParseError('%s:%d: duplicate contract %s' % (fname, ln, cur.target))
            sf.contracts[cur.target] = cur
        else:
            if cur is None:
                raise ParseError('%s:%d: clause outside func' % (fname, ln))
            c = Clause(kind, text, ln, fname)
            t = text
            if kind in ('requires', 'ensures', 'check', 'onlock', 'onrelease'):
                if t.startswith('assumed '):
                    # clause that callers may use but that is NOT proved for the function (listed as an assumption)
                    c.extra['assumed'] = True
                    t = t[len('assumed '):]
                if t.startswith('private '):
                    # representation-level clause: only meaningful inside the package that owns the data structure
                    c.extra['private'] = True
                    t = t[len('private '):]
                m = TAGS.match(t)
                if m:
                    c.tags = [x.strip() for x in m.group(1).split(',') if x.strip()]
                    t = t[m.end():]
                m = LABEL.match(t)
                if m:
                    c.label = m.group(1)
                    t = t[m.end():]
                c.expr = parse_expr(t)
                c.etext = t
            elif kind == 'let':
                m = re.match(r'^([A-Za-z_][A-Za-z0-9_]*)\s*=\s*(.*)$', t)
                c.extra['var'] = m.group(1)
                c.expr = parse_expr(m.group(2))
                c.etext = m.group(2)
            elif kind == 'calls':
                # calls [locked] f(args) -> (a, b)
                if t.startswith('locked '):
                    c.extra['locked'] = True
                    t = t[len('locked '):]
                m = re.match(r'^(.*?)\s*->\s*\(([^)]*)\)\s*$', t)
                if m:
                    c.extra['results'] = [x.strip() for x in m.group(2).split(',') if x.strip()]
                    t = m.group(1)
                else:
                    c.extra['results'] = []
                c.expr = parse_expr(t)
                c.etext = t
            elif kind == 'loop':
                # loop <id>: invariant expr | decreases expr | unroll N | havoc ...
                m = re.match(r'^([A-Za-z_0-9.\-]+)\s*:\s*([a-z]+)\s*(.*)$', t)
                if not m:
                    raise ParseError('%s:%d: bad loop clause' % (fname, ln))
                c.extra['loop'] = m.group(1)
                c.extra['what'] = m.group(2)
                rest = m.group(3)
                if m.group(2) in ('invariant', 'decreases'):
                    mm = TAGS.match(rest)
                    if mm:
                        c.tags = [x.strip() for x in mm.group(1).split(',') if x.strip()]
                        rest = rest[mm.end():]
                    mm = LABEL.match(rest)
                    if mm:
                        c.label = mm.group(1)
                        rest = rest[mm.end():]
                    c.expr = parse_expr(rest)
                    c.etext = rest
                else:
                    c.extra['arg'] = rest.strip()
            elif kind == 'at':
                m = re.match(r'^([A-Za-z_0-9.\-$]+)\s*:\s*([a-z]+)\s*(.*)$', t)
                c.extra['site'] = m.group(1)
                c.extra['what'] = m.group(2)
                rest = m.group(3)
                mm = TAGS.match(rest)
                if mm:
                    c.tags = [x.strip() for x in mm.group(1).split(',') if x.strip()]
                    rest = rest[mm.end():]
                mm = LABEL.match(rest)
                if mm:
                    c.label = mm.group(1)
                    rest = rest[mm.end():]
                if rest.strip():
                    c.expr = parse_expr(rest)
                    c.etext = rest
            elif kind in ('oncall', 'onstore'):
                m = re.match(r'^([\w.]+)\s*:\s*(.*)$', t)
                c.extra['fn'] = m.group(1)
                rest = m.group(2)
                mm = TAGS.match(rest)
                if mm:
                    c.tags = [x.strip() for x in mm.group(1).split(',') if x.strip()]
                    rest = rest[mm.end():]
                mm = LABEL.match(rest)
                if mm:
                    c.label = mm.group(1)
                    rest = rest[mm.end():]
                c.expr = parse_expr(rest)
                c.etext = rest
            elif kind == 'modifies':
                if t.startswith('private '):
                    # representation-level frame: state of the data structure's own objects and ghosts, invisible (and
                    # unreachable) outside the owning package
                    c.extra['private'] = True
                    t = t[len('private '):]
                c.extra['items'] = [x.strip() for x in t.split(',') if x.strip()]
            elif kind in ('mode', 'effect', 'serves', 'lp', 'trusted', 'note', 'inline', 'twin', 'pure', 'opaque',
                          'iterates', 'spawns', 'havoc', 'frame', 'reenters', 'ghostsync'):
                c.extra['arg'] = t.strip()
            c.ordinal = sum(1 for x in cur.clauses if x.kind == c.kind)
            cur.clauses.append(c)
    return sf
