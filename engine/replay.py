"""Replay of counterexamples on the real code (go test -overlay) and replay files."""
import os
import json
import re
import time

ROOT = os.path.dirname(os.path.dirname(os.path.abspath(__file__)))


def finding_matches(finding, v):
    """A known finding is keyed by obligation name and (optionally) a pattern over the model probes."""
    pat = finding.get('probe_pattern')
    if not pat:
        return True
    probes = v.get('probes') or {}
    for k, rx in pat.items():
        if k not in probes or not re.search(rx, probes[k]):
            return False
    return True


def write_and_run(pid, v, repo):
    d = os.path.join(ROOT, 'replays', pid)
    os.makedirs(d, exist_ok=True)
    name = re.sub(r'[^A-Za-z0-9_.-]', '_', v['stable'])[:150]
    path = os.path.join(d, name + '.json')
    doc = {'property': pid, 'obligation': v['stable'], 'instance': v.get('name'), 'function': v.get('fn'),
           'contract_clause': v.get('where'), 'status': v['status'], 'solver': v.get('solver'),
           'reason': v.get('reason'), 'mode': v.get('mode'), 'model': v.get('model'), 'probes': v.get('probes'),
           'written': time.strftime('%Y-%m-%dT%H:%M:%S')}
    confirmed = False
    try:
        import replay_go
        confirmed, info = replay_go.try_replay(pid, v, repo)
        doc['replay'] = info
    except ImportError:
        doc['replay'] = {'family': None, 'note': 'no replay family for this obligation'}
    except Exception as e:
        doc['replay'] = {'error': str(e)}
    doc['confirmed_on_real_code'] = confirmed
    with open(path, 'w') as f:
        json.dump(doc, f, indent=1)
    return path, confirmed


def run_replay_file(path, repo):
    doc = json.load(open(path))
    print(json.dumps({k: doc.get(k) for k in ('property', 'obligation', 'function', 'status', 'probes')}, indent=1))
    try:
        import replay_go
        v = {'stable': doc['obligation'], 'probes': doc.get('probes'), 'fn': doc.get('function'), 'model': doc.get('model'),
             'status': doc.get('status'), 'mode': doc.get('mode')}
        confirmed, info = replay_go.try_replay(doc['property'], v, repo)
        print(json.dumps(info, indent=1))
        return 1 if confirmed else 0
    except ImportError:
        print('no replay family available')
        return 0
