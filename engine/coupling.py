"""Ghost coupling rules for the hash tables (DESIGN.md section 5): how a store to a word of a bucket owned by a table
changes the abstract contents `tview[t]` and the witness maps.  The rules are state based (order independent):

  a slot is OCCUPIED iff   Map:   keys[i] != nil /\\ values[i] != nil /\\ presence bit i+1 of topHashMutex set
                           MapOf: entries[i] != nil /\\ meta byte i != 0x80
  not occupied -> occupied   : tview[t][k'] := Some(v'),  slotb[t][k'] := b, sloti[t][k'] := i
  occupied -> not occupied   : tview[t][k]  := None
  occupied -> occupied, entry changed : tview[t][k'] := Some(v')
  next: nil -> nb            : tbl[nb] := t, ridx[nb] := ridx[b], pos[nb] := pos[b]+1, clen[root] += 1, and the occupied
                               slots of nb enter tview by the first rule

They apply to every store (atomic or plain) into a bucket whose ghost owner `tbl[b]` is not nil; a bucket that is
not owned by a table (freshly allocated, not linked yet) has no ghost effect.  Nothing here is an assumption about the
code: ghost state is ours to define; the representation invariant, which relates it to memory, is a proof obligation.
"""
import z3
from sorts import *


MAP = {'bucket': {'next': 0, 'keys': 1, 'values': 2, 'topHashMutex': 3, 'n': 3}}
MAPOF = {'bucketOf': {'meta': 0, 'entries': 1, 'next': 2, 'n': 5}}


def gh(spec, ex, st, name):
    return spec.ghost_get(ex, st, name).x


def bucket_of(p, field_is_array):
    cut = 3 if field_is_array else 2
    return PAddr(p.cid, p.base, p.path[:-cut], p.lo)


def on_store(spec, ex, st, info, p, newval):
    """Called right BEFORE a store of term `newval` to location p (static description info = (struct, field, ...))."""
    if info is None or getattr(ex, 'dry', 0) and False:
        return
    sname, fname = info[0], info[1]
    if sname == 'bucket' and 'tview' in spec.ghost_decl:
        return map_store(spec, ex, st, fname, p, newval)
    if sname == 'bucketOf' and 'tviewOf' in spec.ghost_decl:
        return mapof_store(spec, ex, st, fname, p, newval)


def _slot_effects(spec, ex, st, names, t, b, i_term, occ0, occ1, k0, k1, v1_some, changed):
    tv, sb, si = names
    tview = gh(spec, ex, st, tv)
    slotb = gh(spec, ex, st, sb)
    sloti = gh(spec, ex, st, si)
    owned = t != NIL
    ins = z3.And(owned, z3.Not(occ0), occ1)
    dele = z3.And(owned, occ0, z3.Not(occ1))
    upd = z3.And(owned, occ0, occ1, changed)
    tvt = z3.Select(tview, t)
    none = ex.ts.opt_none(v1_some.sort().constructor(1).domain(0)) if False else None
    vs = tvt.sort().range()
    none_t = vs.constructor(0)()
    new_tvt = z3.If(z3.Or(ins, upd), z3.Store(tvt, k1, v1_some), z3.If(dele, z3.Store(tvt, k0, none_t), tvt))
    st.ghost[tv] = z3.Store(tview, t, new_tvt)
    sbt = z3.Select(slotb, t)
    st.ghost[sb] = z3.Store(slotb, t, z3.If(ins, z3.Store(sbt, k1, b.term()), sbt))
    sit = z3.Select(sloti, t)
    st.ghost[si] = z3.Store(sloti, t, z3.If(ins, z3.Store(sit, k1, i_term), sit))
    if 'occ' in spec.ghost_decl:
        # occ[t]: number of occupied slots in the buckets owned by table t (by definition: it follows the transitions)
        occ = gh(spec, ex, st, 'occ')
        cur = z3.Select(occ, t)
        one = z3.BitVecVal(1, 64)
        st.ghost['occ'] = z3.Store(occ, t, z3.If(ins, cur + one, z3.If(dele, cur - one, cur)))


def map_store(spec, ex, st, fname, p, newval):
    isarr = fname in ('keys', 'values')
    b = bucket_of(p, isarr)
    tbl = gh(spec, ex, st, 'tbl')
    t = z3.Select(tbl, b.term())
    bk = b.ext(1)
    thm0 = ex.load_leaf(st, BV64, bk.ext(3))
    names = ('tview', 'slotb', 'sloti')
    iface = ex.ts.iface

    def slot(i_sel, i_term, kp0, vp0, thm_0, kp1, vp1, thm_1):
        bit0 = (z3.LShR(thm_0, z3.ZeroExt(0, i_term) + 1) & 1) == 1
        bit1 = (z3.LShR(thm_1, i_term + 1) & 1) == 1
        occ0 = z3.And(kp0 != NIL, vp0 != NIL, bit0)
        occ1 = z3.And(kp1 != NIL, vp1 != NIL, bit1)
        mstr = ex.mem_array(st, Str)
        mifc = ex.mem_array(st, iface)
        k0 = z3.Select(mstr, kp0)
        k1 = z3.Select(mstr, kp1)
        v1 = z3.Select(mifc, vp1)
        some = ex.ts.opt_some(iface, v1)
        _slot_effects(spec, ex, st, names, t, b, i_term, occ0, occ1, k0, k1, some, z3.Or(vp0 != vp1, kp0 != kp1))

    if fname in ('keys', 'values'):
        i_sel = p.path[-1]
        i_term = i_sel if z3.is_expr(i_sel) else z3.BitVecVal(i_sel, 64)
        kp0 = ex.load_leaf(st, Addr, bk.ext(1).ext(i_sel))
        vp0 = ex.load_leaf(st, Addr, bk.ext(2).ext(i_sel))
        if fname == 'keys':
            slot(i_sel, i_term, kp0, vp0, thm0, newval, vp0, thm0)
        else:
            slot(i_sel, i_term, kp0, vp0, thm0, kp0, newval, thm0)
    elif fname == 'topHashMutex':
        for i in range(3):
            kp0 = ex.load_leaf(st, Addr, bk.ext(1).ext(i))
            vp0 = ex.load_leaf(st, Addr, bk.ext(2).ext(i))
            slot(i, z3.BitVecVal(i, 64), kp0, vp0, thm0, kp0, vp0, newval)
    elif fname == 'next':
        link(spec, ex, st, b, t, newval, 'bucket')


def mapof_store(spec, ex, st, fname, p, newval):
    isarr = fname == 'entries'
    b = bucket_of(p, isarr)
    tbl = gh(spec, ex, st, 'tbl')
    t = z3.Select(tbl, b.term())
    bk = b.ext(1)
    meta0 = ex.load_leaf(st, BV64, bk.ext(0))
    names = ('tviewOf', 'slotbOf', 'slotiOf')
    # sorts of K and V from the ghost declaration
    tvo = gh(spec, ex, st, 'tviewOf')
    ksort = tvo.sort().range().domain()
    vopt = tvo.sort().range().range()
    vsort = vopt.constructor(1).domain(0)

    def slot(i_sel, i_term, ep0, m0, ep1, m1):
        by0 = z3.LShR(m0, i_term * 8) & 255
        by1 = z3.LShR(m1, i_term * 8) & 255
        occ0 = z3.And(ep0 != NIL, by0 != 128)
        occ1 = z3.And(ep1 != NIL, by1 != 128)
        mk = ex.mem_array(st, ksort)
        mv = ex.mem_array(st, vsort)
        kaddr0 = Addr.mkaddr(Addr.aid(ep0), Path.pcons(z3.BitVecVal(0, 64), Addr.apath(ep0)))
        kaddr1 = Addr.mkaddr(Addr.aid(ep1), Path.pcons(z3.BitVecVal(0, 64), Addr.apath(ep1)))
        vaddr1 = Addr.mkaddr(Addr.aid(ep1), Path.pcons(z3.BitVecVal(1, 64), Addr.apath(ep1)))
        k0 = z3.Select(mk, kaddr0)
        k1 = z3.Select(mk, kaddr1)
        v1 = z3.Select(mv, vaddr1)
        some = vopt.constructor(1)(v1)
        _slot_effects(spec, ex, st, names, t, b, i_term, occ0, occ1, k0, k1, some, ep0 != ep1)

    if fname == 'entries':
        i_sel = p.path[-1]
        i_term = i_sel if z3.is_expr(i_sel) else z3.BitVecVal(i_sel, 64)
        ep0 = ex.load_leaf(st, Addr, bk.ext(1).ext(i_sel))
        slot(i_sel, i_term, ep0, meta0, newval, meta0)
    elif fname == 'meta':
        for i in range(5):
            ep0 = ex.load_leaf(st, Addr, bk.ext(1).ext(i))
            slot(i, z3.BitVecVal(i, 64), ep0, meta0, ep0, newval)
    elif fname == 'next':
        link(spec, ex, st, b, t, newval, 'bucketOf')


def link(spec, ex, st, b, t, nb, kind):
    """b.next := nb.  If b is owned, nb was not and nb != nil: nb joins b's chain; its occupied slots join the view."""
    tbl = gh(spec, ex, st, 'tbl')
    ridx = gh(spec, ex, st, 'ridx')
    pos = gh(spec, ex, st, 'pos')
    clen = gh(spec, ex, st, 'clen')
    old_next = ex.load_leaf(st, Addr, b.ext(1).ext(0 if kind == 'bucket' else 2))
    cond = z3.And(t != NIL, nb != NIL, old_next == NIL, z3.Select(tbl, nb) == NIL)
    bt = b.term()
    st.ghost['tbl'] = z3.If(cond, z3.Store(tbl, nb, t), tbl)
    st.ghost['ridx'] = z3.If(cond, z3.Store(ridx, nb, z3.Select(ridx, bt)), ridx)
    st.ghost['pos'] = z3.If(cond, z3.Store(pos, nb, z3.Select(pos, bt) + 1), pos)
    # root bucket of the chain: the table's bucket array element ridx[b]
    troot = spec.chain_root(ex, st, t, z3.Select(ridx, bt), kind)
    st.ghost['clen'] = z3.If(cond, z3.Store(clen, troot, z3.Select(clen, troot) + 1), clen)
    # slots of the new bucket
    nbp = PAddr(base=nb, lo=-10 ** 9)
    if kind == 'bucket':
        thm = ex.load_leaf(st, BV64, nbp.ext(1).ext(3))
        for i in range(3):
            kp = ex.load_leaf(st, Addr, nbp.ext(1).ext(1).ext(i))
            vp = ex.load_leaf(st, Addr, nbp.ext(1).ext(2).ext(i))
            occ = z3.And(cond, kp != NIL, vp != NIL, (z3.LShR(thm, z3.BitVecVal(i + 1, 64)) & 1) == 1)
            k1 = z3.Select(ex.mem_array(st, Str), kp)
            v1 = z3.Select(ex.mem_array(st, ex.ts.iface), vp)
            _slot_effects(spec, ex, st, ('tview', 'slotb', 'sloti'), t, nbp, z3.BitVecVal(i, 64), z3.BoolVal(False), occ,
                          k1, k1, ex.ts.opt_some(ex.ts.iface, v1), z3.BoolVal(False))
    else:
        tvo = gh(spec, ex, st, 'tviewOf')
        ksort = tvo.sort().range().domain()
        vopt = tvo.sort().range().range()
        vsort = vopt.constructor(1).domain(0)
        meta = ex.load_leaf(st, BV64, nbp.ext(1).ext(0))
        for i in range(5):
            ep = ex.load_leaf(st, Addr, nbp.ext(1).ext(1).ext(i))
            occ = z3.And(cond, ep != NIL, (z3.LShR(meta, z3.BitVecVal(i * 8, 64)) & 255) != 128)
            kaddr = Addr.mkaddr(Addr.aid(ep), Path.pcons(z3.BitVecVal(0, 64), Addr.apath(ep)))
            vaddr = Addr.mkaddr(Addr.aid(ep), Path.pcons(z3.BitVecVal(1, 64), Addr.apath(ep)))
            k1 = z3.Select(ex.mem_array(st, ksort), kaddr)
            v1 = z3.Select(ex.mem_array(st, vsort), vaddr)
            _slot_effects(spec, ex, st, ('tviewOf', 'slotbOf', 'slotiOf'), t, nbp, z3.BitVecVal(i, 64), z3.BoolVal(False), occ,
                          k1, k1, vopt.constructor(1)(v1), z3.BoolVal(False))


TOPHASH_MASK = ((1 << 20) - 1) << 44


def lane_goal(ex, st, info, p, newval):
    """Word-update discipline for the packed bucket words (part of representation-invariant preservation, decidable at
    the store): a store to `bucketOf.meta` changes at most one of the five byte lanes (bits 40..63 never); a store to
    `bucket.topHashMutex` changes at most one of: the lock bit, or the presence bit + 20-bit top hash of one slot.  A
    store computed from another bucket's word, or one that rewrites a neighbour's lane, corrupts entries that the
    operation is not about (C03/C04: entries lost; C11: contents depend on layout)."""
    sname, fname = info[0], info[1]
    if (sname, fname) == ('bucketOf', 'meta'):
        lanes = [0xFF << (8 * i) for i in range(5)]
        tags = ['C04', 'C11']
    elif (sname, fname) == ('bucket', 'topHashMutex'):
        lanes = [1] + [(TOPHASH_MASK >> (20 * i)) | (1 << (i + 1)) for i in range(3)]
        tags = ['C03', 'C11']
    else:
        return None
    if not z3.is_expr(newval) or newval.sort() != BV64:
        return None
    if p.cid is not None and p.cid < 0 and p.cid not in (getattr(st, 'escaped', None) or ()):
        return None         # initialisation of a bucket that only this path can reach: constrained when it is linked
    old = ex.load_leaf(st, BV64, p)
    diff = newval ^ old
    full = (1 << 64) - 1
    goal = z3.Or(*[(diff & z3.BitVecVal(full & ~m, 64)) == 0 for m in lanes])
    return ('%s.%s.one-lane' % (sname, fname), goal, tags)
