"""Contracts: evaluation of the specification language, application of contracts at call sites,
verification driver for one function (callee side)."""
import re
import z3
from sorts import *
from symex import Exec, State, Frame, Obligation, EngineError
import specparse
import ir as IR


def LIT(n):
    return V(('$lit',), n)


class Spec:
    def __init__(self, prog):
        self.prog = prog
        self.sf = specparse.SpecFile()
        self.sf.pkgof = {}
        self.contract_files = []
        for fl in prog.files:
            if fl.get('contracts'):
                lines = [(c['line'], c['text']) for c in fl['contracts']]
                before = set(self.sf.contracts)
                specparse.parse_file(lines, fl['file'], fl['pkg'], self.sf)
                self.contract_files.append(fl['file'])
        self.by_fn = {}
        self.unbound = []
        for tgt, con in self.sf.contracts.items():
            fn = prog.find_func(tgt, pkg=con.pkg)
            if fn is None:
                self.unbound.append(con)
                continue
            con.fn = fn
            self.by_fn[fn] = con
        self.immutable_ghosts = set()
        self.ghost_decl = {}
        for g, txt in self.sf.ghosts.items():
            self.ghost_decl[g] = txt
        from intrinsics import INTRINSICS
        self.intr = INTRINSICS
        self.verifying = None     # contract currently being verified (its own calls to itself use the contract)
        self.impls = None

    # ------------------------------------------------------------------------------------------
    def contract_for(self, fname):
        return self.by_fn.get(fname)

    def inline_anyway(self, con, ex):
        # contracts marked `inline` are helper contracts whose body is also inlined at call sites
        return any(c.kind == 'inline' for c in con.clauses)

    def intrinsic(self, name):
        return self.intr.get(name)

    def resolve_invoke(self, ex, iface, method):
        """Interface method -> the single implementation in the program (checked)."""
        if self.impls is None:
            self.impls = {}
            for f in self.prog.funcs.values():
                for b in f['blocks']:
                    for i in b['instrs']:
                        if i['op'] == 'MakeInterface' and ex.ts.rep(i['type'])[0] == 'addr':
                            it = self.iface_base(i['type'])
                            self.impls.setdefault(it, set()).add(self.iface_base(i['x']['t']))
        base = self.iface_base(iface)
        impl = self.impls.get(base)
        if not impl or len(impl) != 1:
            return None
        (t,) = impl
        # t like *github.com/fufuok/cache/internal/xsync.Map or ...MapOf[K, V]
        tn = t.lstrip('*')
        tn = re.sub(r'\[.*\]$', '', tn)
        for n in self.prog.funcs:
            m = re.match(r'^\(\*?' + re.escape(tn) + r'(\[[^\]]*\])?\)\.' + re.escape(method) + '$', n)
            if m:
                return n
        return None

    def iface_base(self, t):
        return re.sub(r'\[.*\]$', '', t)

    # ------------------------------------------------------------------------------------------
    # ghost state
    # ------------------------------------------------------------------------------------------
    def ghost_sort(self, ex, txt):
        """ghost type text -> (z3 sort, descriptor)"""
        txt = txt.strip()
        if txt == 'mathint':
            return IntS, ('$mathint',)
        if txt == 'fn':
            return Fn, ('$fn',)
        if txt == 'Addr':
            return Addr, '$addr'
        mo = re.match(r'^opt\[(.*)\]$', txt)
        if mo:
            t = self.resolve_type(ex, mo.group(1))
            return ex.ts.opt_sort(ex.ts.sort(t)), ('$opt', t)
        m = re.match(r'^\[(\w+)\](.*)$', txt)
        if m:
            isort = {'Addr': Addr, 'mathint': IntS, 'Str': Str}.get(m.group(1))
            if isort is None:
                isort = ex.ts.sort(self.resolve_type(ex, m.group(1)))
            es, ed = self.ghost_sort(ex, m.group(2))
            return z3.ArraySort(isort, es), ('$arr', m.group(1), ed)
        t = self.resolve_type(ex, txt)
        return ex.ts.sort(t), t

    def ghost_get(self, ex, st, name):
        if name not in st.ghost:
            s, d = self.ghost_sort(ex, self.ghost_decl[name])
            st.ghost[name] = z3.Const('g0_' + name, s)
        s, d = self.ghost_sort(ex, self.ghost_decl[name])
        return V(d, st.ghost[name])

    def view_name(self, ks, vs):
        return 'view$%s$%s' % (ks, vs)

    def view_get(self, ex, st, ks, vs):
        n = self.view_name(ks, vs)
        if n not in st.ghost:
            ep = getattr(st, 'env_epoch', 0)
            st.ghost[n] = z3.Const(('g0_' if ep == 0 else 'gENV%d_' % ep) + mangle(n),
                                   z3.ArraySort(Addr, z3.ArraySort(ks, ex.ts.opt_sort(vs))))
        return st.ghost[n]

    def gomap_name(self, ks, vs):
        return 'gomap$%s$%s' % (ks, vs)

    def ensure_gomap(self, ex, st, ks, vs):
        n = self.gomap_name(ks, vs)
        if n not in st.ghost:
            st.ghost[n] = z3.Const('g0_' + mangle(n), z3.ArraySort(Addr, z3.ArraySort(ks, ex.ts.opt_sort(vs))))

    def map_kv(self, ex, t):
        """Key and value Go types of a Map/MapOf (pointer, interface or builtin map) type."""
        tt = self.prog.ty(t)
        if tt['kind'] == 'pointer':
            return self.map_kv(ex, tt['elem'])
        if tt['kind'] == 'map':
            return tt['key'], tt['elem']
        if tt['kind'] == 'named':
            if tt.get('targs'):
                return tt['targs'][0], tt['targs'][1]
            if tt['name'] == 'Map':
                return 'string', 'interface{}'
        raise EngineError('not a map type: ' + str(t))

    def resolve_type(self, ex, name, pkg=None):
        name = name.strip()
        types = self.prog.types
        if name in types:
            return name
        if name.startswith('*'):
            return self.ptr_to(self.resolve_type(ex, name[1:], pkg))
        for p in ([pkg] if pkg else []) + [IR.PKG, IR.XPKG]:
            if p and (p + '.' + name) in types:
                return p + '.' + name
        # generic named types: match by origin name
        cands = [t for t, r in types.items() if r['kind'] == 'named' and r['name'] == name and
                 all(self.prog.ty(a)['kind'] == 'typeparam' for a in (r.get('targs') or []))]
        if len(cands) == 1:
            return cands[0]
        if cands:
            cands.sort(key=len)
            return cands[0]
        raise EngineError('unknown type in spec: ' + name)

    # ------------------------------------------------------------------------------------------
    # expression evaluation
    # ------------------------------------------------------------------------------------------
    def eval_bool(self, ex, e, env, st, old):
        v = self.eval(ex, e, env, st, old)
        x = v.x
        if not z3.is_bool(x):
            raise EngineError('spec expression is not boolean: %s' % (e,))
        return x

    def as_int(self, v):
        if isinstance(v.t, tuple) and v.t[0] == '$lit':
            return z3.IntVal(v.x)
        if z3.is_int(v.x):
            return v.x
        if z3.is_bv(v.x):
            return z3.BV2Int(v.x, is_signed=True)
        raise EngineError('not an integer')

    def is_lit(self, v):
        return isinstance(v.t, tuple) and v.t[0] in ('$lit', '$litite')

    def is_poly(self, v):
        return isinstance(v.t, tuple) and v.t[0] in ('$none', '$nil')

    def coerce(self, ex, a, b):
        """Make literals / polymorphic constants agree with the other operand."""
        if self.is_lit(a) and self.is_lit(b):
            return a, b
        if self.is_lit(a):
            return self.lit_as(ex, a, b), b
        if self.is_lit(b):
            return a, self.lit_as(ex, b, a)
        if self.is_poly(a) and not self.is_poly(b):
            return self.poly_as(ex, a, b), b
        if self.is_poly(b) and not self.is_poly(a):
            return a, self.poly_as(ex, b, a)
        return a, b

    def lit_as(self, ex, lit, other):
        x = other.x
        if isinstance(x, PAddr) or isinstance(x, list):
            raise EngineError('literal vs non-scalar')
        if lit.t[0] == '$litite':
            c, a, b = lit.x
            if z3.is_bv(x):
                return V(other.t, z3.If(c, z3.BitVecVal(a, x.size()), z3.BitVecVal(b, x.size())))
            if z3.is_int(x):
                return V(other.t, z3.If(c, z3.IntVal(a), z3.IntVal(b)))
        if z3.is_bv(x):
            return V(other.t, z3.BitVecVal(lit.x, x.size()))
        if z3.is_int(x):
            return V(other.t, z3.IntVal(lit.x))
        raise EngineError('literal vs %s' % x.sort())

    def poly_as(self, ex, p, other):
        if p.t[0] == '$none':
            # other must be an option
            if isinstance(other.t, tuple) and other.t[0] == '$opt':
                vs = ex.ts.sort(other.t[1])
                return V(other.t, ex.ts.opt_none(vs))
            raise EngineError('none vs non-option')
        if p.t[0] == '$nil':
            if isinstance(other.t, tuple):
                raise EngineError('nil vs spec value')
            return ex.zero(other.t)
        raise EngineError('poly')

    def signed(self, ex, v):
        if isinstance(v.t, str) and not v.t.startswith('$'):
            return ex.ts.is_signed(v.t)
        return True

    def truthy(self, v):
        return v.x

    def lookup_const(self, name, pkg):
        for p in [pkg, IR.PKG, IR.XPKG]:
            g = self.prog.globals.get('const:%s.%s' % (p, name))
            if g:
                return g
        return None

    def eval(self, ex, e, env, st, old):
        k = e[0]
        if k == 'num':
            return LIT(e[1])
        if k == 'id':
            return self.eval_id(ex, e[1], env, st, old)
        if k == 'let':
            v = self.eval(ex, e[2], env, st, old)
            env2 = dict(env)
            env2[e[1]] = ('val', v)
            return self.eval(ex, e[3], env2, st, old)
        if k == 'lambda':
            t = self.resolve_type(ex, e[2])
            c = z3.Const('lam_' + e[1], ex.ts.sort(t))
            env2 = dict(env)
            env2[e[1]] = ('val', ex.ts.unpack(t, c))
            st_q = st.copy()
            old_q = old.copy() if old is not st else st_q
            body = self.eval(ex, e[3], env2, st_q, old_q)
            if isinstance(body.t, tuple) and body.t[0] == '$opt':
                return V(('$map', t, body.t[1]), z3.Lambda([c], body.x))
            return V(('$arr', t, body.t), z3.Lambda([c], ex.term(body)))
        if k in ('forall', 'exists'):
            env2 = dict(env)
            bound = []
            guards = []
            for (vn, sn) in e[1]:
                if sn == 'mathint':
                    c = z3.Const('q_' + vn, IntS)
                    env2[vn] = ('val', V(('$mathint',), c))
                elif sn == 'Addr':
                    c = z3.Const('q_' + vn, Addr)
                    env2[vn] = ('val', V('$addr', PAddr(base=c, lo=-10 ** 9)))
                else:
                    t = self.resolve_type(ex, sn)
                    c = z3.Const('q_' + vn, ex.ts.sort(t))
                    uv = ex.ts.unpack(t, c)
                    if isinstance(uv.x, PAddr):
                        # a bound pointer ranges over all addresses, including objects allocated by this path
                        uv = V(uv.t, PAddr(base=uv.x.base, cid=uv.x.cid, path=uv.x.path, lo=-10 ** 9))
                    env2[vn] = ('val', uv)
                    try:
                        # a quantifier over pointers of type *T ranges over the addresses of variables of type T
                        ut = self.prog.under(t)[1]
                        if ut.get('kind') == 'pointer' and ex.typed_struct(ut['elem']) and getattr(ex, 'ptype_guards', False):
                            guards.append(ex.ptype_fact(c, ut['elem']))
                    except Exception:
                        pass
                bound.append(c)
            # the body is evaluated on scratch copies: facts recorded while evaluating it mention the bound variables
            st_q = st.copy()
            old_q = old.copy() if old is not st else st_q
            body = self.eval_bool(ex, e[2], env2, st_q, old_q)
            for g_, t_ in st_q.ghost.items():
                if g_ not in st.ghost:
                    st.ghost[g_] = t_
            # array definitions introduced by nested quantifiers (variable free) belong to the enclosing state
            for a_ in st_q.pc[len(st.pc):]:
                if z3.is_eq(a_) and z3.is_const(a_.arg(0)) and a_.arg(0).decl().name().startswith('arr!'):
                    st.pc.append(a_)
                    if getattr(st, 'arrdefs', None) is None:
                        st.arrdefs = set()
            if guards:
                body = z3.Implies(z3.And(*guards), body) if k == 'forall' else z3.And(*(guards + [body]))
            if k == 'forall':
                body = self.name_arrays(ex, bound, body, st)
            pats = self.auto_patterns(bound, body) if k == 'forall' else []
            q = None
            if pats:
                try:
                    q = z3.ForAll(bound, body, patterns=pats)
                except z3.Z3Exception:
                    q = None
            if q is not None:
                pass
            else:
                q = z3.ForAll(bound, body) if k == 'forall' else z3.Exists(bound, body)
            return V('bool', q)
        if k == 'un':
            a = self.eval(ex, e[2], env, st, old)
            if e[1] == '!':
                return V('bool', z3.Not(a.x))
            if e[1] == '-':
                if self.is_lit(a):
                    return LIT(-a.x)
                return V(a.t, -a.x)
            if e[1] == '^':
                return V(a.t, ~a.x)
        if k == 'bin':
            return self.eval_bin(ex, e, env, st, old)
        if k in ('field', 'index'):
            pl = self.place(ex, e, env, st, old)
            if pl is not None:
                return ex.load(st, pl[1], pl[0])
        if k == 'field':
            a = self.eval(ex, e[1], env, st, old)
            return self.field(ex, a, e[2], st)
        if k == 'index':
            a = self.eval(ex, e[1], env, st, old)
            i = self.eval(ex, e[2], env, st, old)
            return self.index(ex, a, i, st)
        if k == 'assert':
            a = self.eval(ex, e[1], env, st, old)
            t = self.resolve_type(ex, e[2])
            if isinstance(a.t, str) and ex.ts.rep(a.t)[0] == 'addr':
                return V(t, a.x)      # named interface represented by the address of its implementation
            return ex.ts.unbox(t, a.x)
        if k == 'call':
            return self.eval_call(ex, e[1], e[2], env, st, old)
        if k == 'str':
            if e[1] == '':
                return V('string', STR_EMPTY)
            return V('string', z3.Const('strlit_' + mangle(e[1])[:60], Str))
        raise EngineError('spec eval ' + str(e))

    def place(self, ex, e, env, st, old):
        """Address and type of a place expression  p.f,  p.f[i],  s[i].f ...  (None if e is not a memory place)."""
        k = e[0]
        if k == 'field':
            base = self.place(ex, e[1], env, st, old)
            if base is not None:
                p, t = base
                rep = ex.ts.rep(t)
                if rep[0] == 'addr':
                    # pointer-typed place: dereference
                    tt = self.prog.under(t)[1]
                    if tt['kind'] != 'pointer':
                        return None
                    ptr = ex.load(st, t, p)
                    return self.field_place(ex, ptr.x, tt['elem'], e[2], st)
                if rep[0] == 'struct':
                    return self.field_place(ex, p, t, e[2], st)
                return None
            a = self.eval(ex, e[1], env, st, old)
            if isinstance(a.t, str) and not a.t.startswith('$') and ex.ts.rep(a.t)[0] == 'addr' and isinstance(a.x, PAddr):
                tt = self.prog.under(a.t)[1]
                if tt['kind'] == 'pointer' and self.prog.kind(tt['elem']) == 'struct':
                    return self.field_place(ex, a.x, tt['elem'], e[2], st)
            return None
        if k == 'index':
            base = self.place(ex, e[1], env, st, old)
            if base is None:
                return None
            p, t = base
            rep = ex.ts.rep(t)
            i = self.eval(ex, e[2], env, st, old)
            if self.is_lit(i):
                i = V('int', z3.BitVecVal(i.x, 64))
            sel = ex.selc(ex.to64(i))
            if rep[0] == 'array':
                return p.ext(sel), rep[1]
            if rep[0] == 'slice':
                sl = ex.load(st, t, p)
                return sl.x[0].x.ext(sel), rep[1]
            return None
        return None

    def field_place(self, ex, p, stype, name, st):
        r = ex.ts.rep(stype)
        if r[0] != 'struct':
            return None
        for i, (fn, ft) in enumerate(r[1]):
            if fn == name:
                return p.ext(i), ft
        for i, (fn, ft) in enumerate(r[1]):
            fr = ex.ts.rep(ft)
            if fr[0] == 'struct' and any(n2 == name for n2, _ in fr[1]):
                return self.field_place(ex, p.ext(i), ft, name, st)
            if fr[0] == 'addr':
                ptt = self.prog.under(ft)[1]
                if ptt['kind'] == 'pointer' and self.prog.kind(ptt['elem']) == 'struct':
                    er = ex.ts.rep(ptt['elem'])
                    if any(n2 == name for n2, _ in er[1]):
                        ptr = ex.load(st, ft, p.ext(i))
                        return self.field_place(ex, ptr.x, ptt['elem'], name, st)
        return None

    def name_arrays(self, ex, bound, body, st):
        """Give a name to every compound, variable-free array term that is indexed inside a quantified formula
        (`A[...x...]` with A = Store/If/...): triggers must not contain `if`, and short names make matching cheap.  The
        defining equation is added to the path condition (a conservative extension)."""
        ids = set(b.get_id() for b in bound)
        has = {}

        def hv(t):
            i = t.get_id()
            if i in has:
                return has[i]
            r = i in ids or any(hv(c) for c in t.children())
            has[i] = r
            return r
        table = getattr(ex, 'array_names', None)
        if table is None:
            table = ex.array_names = {}
        subs = []
        seen = set()

        def walk(t):
            i = t.get_id()
            if i in seen or z3.is_quantifier(t):
                return
            seen.add(i)
            for c in t.children():
                walk(c)
            if z3.is_app(t) and t.decl().kind() == z3.Z3_OP_SELECT:
                a = t.arg(0)
                if z3.is_array(a) and not hv(a) and not (z3.is_const(a) and a.decl().kind() == z3.Z3_OP_UNINTERPRETED):
                    k2 = a.get_id()
                    if k2 not in table:
                        nm = z3.Const('arr!%d' % (len(table) + 1), a.sort())
                        table[k2] = (nm, a)
                    nm, orig = table[k2]
                    subs.append((a, nm))
                    dk = ('arrdef', k2)
                    defs = getattr(st, 'arrdefs', None)
                    if defs is None:
                        defs = st.arrdefs = set()
                    if k2 not in defs:
                        defs.add(k2)
                        st.pc.append(nm == orig)
                    gd = getattr(ex, 'arrdef_eqs', None)
                    if gd is None:
                        gd = ex.arrdef_eqs = {}
                    gd[nm.decl().name()] = (nm == orig)
        try:
            walk(body)
        except z3.Z3Exception:
            return body
        if not subs:
            return body
        return z3.substitute(body, *subs)

    def auto_patterns(self, bound, body):
        """Triggers for a universally quantified spec formula: the smallest select terms (memory or ghost arrays) that
        mention bound variables; combined into one multi-pattern covering all variables when no single term does."""
        ids = {b.get_id(): i for i, b in enumerate(bound)}
        cands = []
        seen = set()

        vcache = {}

        def vset(t):
            i = t.get_id()
            if i in vcache:
                return vcache[i]
            r = frozenset([ids[i]]) if i in ids else frozenset()
            for c in t.children():
                r = r | vset(c)
            vcache[i] = r
            return r

        def vars_of(t, acc, depth=0):
            acc.update(vset(t))

        okc = {}
        BAD = (z3.Z3_OP_AND, z3.Z3_OP_OR, z3.Z3_OP_NOT, z3.Z3_OP_ITE, z3.Z3_OP_IMPLIES, z3.Z3_OP_EQ, z3.Z3_OP_DISTINCT, z3.Z3_OP_IFF)

        def pat_ok(t):
            i = t.get_id()
            if i not in okc:
                okc[i] = (not z3.is_quantifier(t)) and (not z3.is_app(t) or t.decl().kind() not in BAD) and all(pat_ok(c) for c in t.children())
            return okc[i]

        def walk(t):
            if t.get_id() in seen:
                return
            seen.add(t.get_id())
            if z3.is_quantifier(t):
                return
            for c in t.children():
                walk(c)
            if z3.is_app(t) and t.decl().kind() == z3.Z3_OP_SELECT:
                vs = set()
                vars_of(t.arg(1), vs)
                avs = set()
                vars_of(t.arg(0), avs)
                if vs and not (avs - vs) and pat_ok(t):
                    cands.append((len(str(t)), t, frozenset(vs | avs)))
        try:
            walk(body)
        except Exception:
            return []
        if not cands:
            return []
        cands.sort(key=lambda c: c[0])
        allv = frozenset(range(len(bound)))
        pats = []
        # single terms covering everything
        for sz, t, vs in cands:
            if vs == allv:
                pats.append(t)
                if len(pats) >= 3:
                    break
        if pats:
            return pats
        # greedy multi-pattern
        chosen, covered = [], set()
        for sz, t, vs in cands:
            if not vs <= covered:
                chosen.append(t)
                covered |= vs
            if covered == set(allv):
                break
        if covered == set(allv):
            return [z3.MultiPattern(*chosen)] if len(chosen) > 1 else chosen
        return []

    def eval_id(self, ex, name, env, st, old):
        if name in env:
            ent = env[name]
            if ent[0] == 'val':
                return ent[1]
            if ent[0] == 'addr':
                return ex.load(st, ent[2], ent[1])
        if name in st.lets:
            return st.lets[name]
        if name == 'true':
            return V('bool', z3.BoolVal(True))
        if name == 'false':
            return V('bool', z3.BoolVal(False))
        if name == 'nil':
            return V(('$nil',), None)
        if name == 'none':
            return V(('$none',), None)
        if name == 'now':
            return V('int64', self.now(ex, st))
        if name == 'cbpure':
            return V('bool', z3.And(*[ev[5] for ev in st.trace if ev[0] == 'cb' and ev[5] is not None] + [z3.BoolVal(True)]))
        if name in self.ghost_decl:
            return self.ghost_get(ex, st, name)
        c = self.lookup_const(name, None)
        if c:
            t = c['type']
            r = ex.ts.rep(t)
            if r[0] == 'bv':
                return V(t, z3.BitVecVal(int(c['value']), r[1]))
            return LIT(int(c['value']))
        raise EngineError('unknown identifier in spec: ' + name)

    def now(self, ex, st):
        return st.ghost.setdefault('$now', z3.Const('clock_now', BV64))

    def field(self, ex, a, name, st):
        t = a.t
        if isinstance(t, tuple):
            raise EngineError('field %s of spec value %s' % (name, t))
        # auto-deref pointers
        rep = ex.ts.rep(t)
        if rep[0] == 'addr':
            tt = self.prog.under(t)[1]
            if tt['kind'] != 'pointer':
                raise EngineError('field of non-pointer ' + t)
            et = tt['elem']
            r = ex.ts.rep(et)
            for i, (fn, ft) in enumerate(r[1]):
                if fn == name:
                    return ex.load(st, ft, a.x.ext(i))
            # embedded structs (by value or by pointer)
            for i, (fn, ft) in enumerate(r[1]):
                fr = ex.ts.rep(ft)
                if fr[0] == 'struct' and any(n2 == name for n2, _ in fr[1]):
                    return self.field(ex, V(self.ptr_to(ft), a.x.ext(i)), name, st)
                if fr[0] == 'addr':
                    ptt = self.prog.under(ft)[1]
                    if ptt['kind'] == 'pointer' and self.prog.kind(ptt['elem']) == 'struct':
                        er = ex.ts.rep(ptt['elem'])
                        if any(n2 == name for n2, _ in er[1]):
                            return self.field(ex, ex.load(st, ft, a.x.ext(i)), name, st)
            raise EngineError('no field %s in %s' % (name, et))
        if rep[0] == 'struct':
            for i, (fn, ft) in enumerate(rep[1]):
                if fn == name:
                    return a.x[i]
            for i, (fn, ft) in enumerate(rep[1]):
                fr = ex.ts.rep(ft)
                if fr[0] == 'struct' and any(n2 == name for n2, _ in fr[1]):
                    return self.field(ex, a.x[i], name, st)
            raise EngineError('no field %s in %s' % (name, t))
        if rep[0] == 'slice':
            if name == 'len':
                return a.x[1]
            if name == 'cap':
                return a.x[2]
        raise EngineError('field %s of %s' % (name, t))

    def ptr_to(self, t):
        n = '*' + t
        if n not in self.prog.types:
            self.prog.types[n] = {'kind': 'pointer', 'elem': t}
        return n

    def index(self, ex, a, i, st):
        t = a.t
        if isinstance(t, tuple):
            if t[0] == '$map':
                ks, vs = ex.ts.sort(t[1]), ex.ts.sort(t[2])
                if self.is_lit(i) or self.is_poly(i):
                    raise EngineError('literal map key')
                return V(('$opt', t[2]), z3.Select(a.x, ex.ts.pack(i)))
            if t[0] == '$arr':
                idx = i
                if self.is_lit(i):
                    idx = V(('$mathint',), z3.IntVal(i.x)) if t[1] == 'mathint' else i
                it = ex.term(idx) if not isinstance(idx.x, list) else ex.ts.pack(idx)
                r = z3.Select(a.x, it)
                d = t[2]
                if d == '$addr':
                    return V('$addr', PAddr(base=r, lo=-10 ** 9))
                if isinstance(d, str) and not d.startswith('$'):
                    return ex.ts.unpack(d, r)
                return V(d, r)
            raise EngineError('index of ' + str(t))
        rep = ex.ts.rep(t)
        if rep[0] == 'array':
            if self.is_lit(i):
                return a.x[i.x]
            raise EngineError('symbolic index of array value in spec')
        if rep[0] == 'slice':
            et = rep[1]
            idx = self.lit_as(ex, i, V('int', z3.BitVecVal(0, 64))) if self.is_lit(i) else i
            return ex.load(st, et, a.x[0].x.ext(ex.selc(ex.to64(idx))))
        if rep[0] == 'addr':
            tt = self.prog.under(t)[1]
            if tt['kind'] == 'pointer' and self.prog.kind(tt['elem']) == 'array':
                et = self.prog.under(tt['elem'])[1]['elem']
                idx = self.lit_as(ex, i, V('int', z3.BitVecVal(0, 64))) if self.is_lit(i) else i
                return ex.load(st, et, a.x.ext(ex.selc(ex.to64(idx))))
        raise EngineError('index of ' + str(t))

    def eval_bin(self, ex, e, env, st, old):
        op = e[1]
        if op in ('&&', '||', '==>', '<==>'):
            a = self.eval_bool(ex, e[2], env, st, old)
            b = self.eval_bool(ex, e[3], env, st, old)
            if op == '&&':
                return V('bool', z3.And(a, b))
            if op == '||':
                return V('bool', z3.Or(a, b))
            if op == '==>':
                return V('bool', z3.Implies(a, b))
            return V('bool', a == b)
        a = self.eval(ex, e[2], env, st, old)
        b = self.eval(ex, e[3], env, st, old)
        a, b = self.coerce(ex, a, b)
        if self.is_lit(a) and self.is_lit(b):
            x, y = a.x, b.x
            r = {'+': lambda: x + y, '-': lambda: x - y, '*': lambda: x * y, '<<': lambda: x << y, '>>': lambda: x >> y,
                 '&': lambda: x & y, '|': lambda: x | y, '^': lambda: x ^ y, '/': lambda: x // y, '%': lambda: x % y,
                 '==': lambda: x == y, '!=': lambda: x != y, '<': lambda: x < y, '<=': lambda: x <= y,
                 '>': lambda: x > y, '>=': lambda: x >= y, '&^': lambda: x & ~y}[op]()
            if isinstance(r, bool):
                return V('bool', z3.BoolVal(r))
            return LIT(r)
        if op in ('==', '!='):
            eq = self.equal(ex, a, b)
            return V('bool', eq if op == '==' else z3.Not(eq))
        if z3.is_int(a.x):
            x, y = a.x, b.x
            if z3.is_bv(y):
                y = z3.BV2Int(y, True)
            r = {'+': lambda: x + y, '-': lambda: x - y, '*': lambda: x * y, '<': lambda: x < y, '<=': lambda: x <= y,
                 '>': lambda: x > y, '>=': lambda: x >= y}[op]()
            return V('bool' if z3.is_bool(r) else a.t, r)
        if isinstance(a.t, str) and not a.t.startswith('$') and ex.ts.rep(a.t)[0] in ('bv', 'bool'):
            rt = 'bool' if op in ('<', '<=', '>', '>=') else a.t
            return ex.binop(op, a, b, rt, st)
        raise EngineError('spec binop %s on %s' % (op, a.t))

    def equal(self, ex, a, b):
        if isinstance(a.x, Clo) or isinstance(b.x, Clo):
            c, o = (a, b) if isinstance(a.x, Clo) else (b, a)
            if not isinstance(o.x, Clo) and z3.is_expr(o.x) and o.x.eq(FN_NIL):
                return z3.BoolVal(False)      # a function literal is never nil
        if isinstance(a.x, list) and isinstance(b.x, list):
            return z3.And(*[self.equal(ex, p, q) for p, q in zip(a.x, b.x)]) if a.x else z3.BoolVal(True)
        if isinstance(a.x, list):
            return ex.ts.pack(a) == b.x
        if isinstance(b.x, list):
            return a.x == ex.ts.pack(b)
        return ex.term(a) == ex.term(b)

    # ------------------------------------------------------------------------------------------
    def eval_call(self, ex, fn, args, env, st, old):
        ev = lambda a, s=st: self.eval(ex, a, env, s, old)
        if fn == 'old':
            return self.eval(ex, args[0], self.old_env(env), old, old)
        if fn == 'athead':
            # value of the expression at the head of the loop whose `iteration` clause is being checked
            hd = getattr(st, 'cur_head', None)
            if hd is None:
                raise EngineError('athead outside an iteration clause')
            env2 = dict(env)
            env2.update(hd[1])
            return self.eval(ex, args[0], env2, hd[2], old)
        if fn in self.sf.defines:
            params, body, txt, pkg = self.sf.defines[fn]
            if len(params) != len(args):
                raise EngineError('macro %s arity' % fn)
            env2 = dict(env)
            for p, a in zip(params, args):
                env2[p] = ('val', ev(a))
            return self.eval(ex, body, env2, st, old)
        if fn == 'ite':
            c = self.eval_bool(ex, args[0], env, st, old)
            a, b = self.coerce(ex, ev(args[1]), ev(args[2]))
            if self.is_lit(a):
                return V(('$litite',), (c, a.x, b.x))
            return self.ite(ex, c, a, b)
        if fn == 'view':
            m = ev(args[0])
            kt, vt = self.map_kv(ex, m.t)
            ks, vs = ex.ts.sort(kt), ex.ts.sort(vt)
            arr = self.view_get(ex, st, ks, vs)
            return V(('$map', kt, vt), z3.Select(arr, ex.term(m)))
        if fn == 'gomap':
            m = ev(args[0])
            kt, vt = self.map_kv(ex, m.t)
            ks, vs = ex.ts.sort(kt), ex.ts.sort(vt)
            self.ensure_gomap(ex, st, ks, vs)
            return V(('$map', kt, vt), z3.Select(st.ghost[self.gomap_name(ks, vs)], ex.term(m)))
        if fn == 'emptymap':
            m = ev(args[0])
            kt, vt = m.t[1], m.t[2]
            return V(m.t, z3.K(ex.ts.sort(kt), ex.ts.opt_none(ex.ts.sort(vt))))
        if fn == 'present':
            o = ev(args[0])
            return V('bool', ex.ts.opt_is_some(ex.ts.sort(o.t[1]), o.x))
        if fn == 'val':
            o = ev(args[0])
            return ex.ts.unpack(o.t[1], ex.ts.opt_val(ex.ts.sort(o.t[1]), o.x))
        if fn == 'some':
            x = ev(args[0])
            return V(('$opt', x.t), ex.ts.opt_some(ex.ts.sort(x.t), ex.ts.pack(x)))
        if fn == 'put':
            m, kk, vv = ev(args[0]), ev(args[1]), ev(args[2])
            vs = ex.ts.sort(m.t[2])
            if self.is_poly(vv):
                vv = ex.zero(m.t[2])
            return V(m.t, z3.Store(m.x, ex.ts.pack(kk), ex.ts.opt_some(vs, ex.ts.pack(V(m.t[2], vv.x)))))
        if fn == 'remove':
            m, kk = ev(args[0]), ev(args[1])
            vs = ex.ts.sort(m.t[2])
            return V(m.t, z3.Store(m.x, ex.ts.pack(kk), ex.ts.opt_none(vs)))
        if fn == 'box':
            x = ev(args[0])
            return V('interface{}', ex.ts.box(x))
        if fn == 'is':
            x = ev(args[0])
            t = self.resolve_type(ex, self.typearg(args[1]))
            return V('bool', ex.ts.is_box(t, x.x))
        if fn == 'mk':
            t = self.resolve_type(ex, self.typearg(args[0]))
            r = ex.ts.rep(t)
            fs = []
            for a, (fnm, ft) in zip(args[1:], r[1]):
                v = ev(a)
                if self.is_lit(v):
                    v = self.lit_as(ex, v, ex.zero(ft))
                if self.is_poly(v):
                    v = ex.zero(ft)
                fs.append(V(ft, v.x))
            return V(t, fs)
        if fn == 'zero':
            return ex.zero(self.resolve_type(ex, self.typearg(args[0])))
        if fn == 'zerolike':
            x = ev(args[0])
            if isinstance(x.t, tuple) and x.t[0] == '$opt':
                return ex.zero(x.t[1])
            return ex.zero(x.t)
        if fn == 'unixnano':
            t = ev(args[0])
            from intrinsics import time_unixnano
            return V('int64', time_unixnano(ex, t))
        if fn == 'timeunix':
            from intrinsics import time_unix
            s, n = ev(args[0]), ev(args[1])
            z = V('int64', z3.BitVecVal(0, 64))
            if self.is_lit(s):
                s = self.lit_as(ex, s, z)
            if self.is_lit(n):
                n = self.lit_as(ex, n, z)
            return time_unix(ex, s.x, n.x)
        if fn == 'ncalls':
            f = ev(args[0])
            n = len([e for e in st.trace if e[0] == 'cb' and e[1].eq(ex.term(f))])
            return LIT(n)
        if fn == 'cbset':
            f = ev(args[0])
            names, pts = self.ledger(ex, st, self.sig_of(ex, f.t))
            return V(('$arr', pts[0], 'bool'), z3.Select(st.ghost[names[-1]], ex.term(f)))
        if fn == 'cbr':
            f = ev(args[0])
            names, pts = self.ledger(ex, st, self.sig_of(ex, f.t))
            i = ev(args[1])
            ii = z3.BitVecVal(i.x, 64) if self.is_lit(i) else i.x
            nm = [x for x in names if x.startswith('cbR$')][0]
            return V('bool', z3.Select(st.ghost[nm], ii))
        if fn in ('cbn', 'cbf', 'cba'):
            f = ev(args[0])
            names, pts = self.ledger(ex, st, self.sig_of(ex, f.t))
            if fn == 'cbn':
                return V('int', st.ghost[names[0]])
            i = ev(args[1])
            ii = z3.BitVecVal(i.x, 64) if self.is_lit(i) else i.x
            if fn == 'cbf':
                return V(f.t, z3.Select(st.ghost[names[1]], ii))
            j = ev(args[2]).x
            return ex.ts.unpack(pts[j], z3.Select(st.ghost[names[2 + j]], ii))
        if fn == 'nspawn':
            return V('int', st.ghost.setdefault('$nspawn', z3.Const('g0_nspawn', BV64)))
        if fn in ('spawnedbefore', 'spawnfn', 'finalizer', 'closed', 'tickerchan') and getattr(ex, 'assume_mode', 0):
            # facts about the callee's own trace: nothing is known about them at the call site
            return V('bool', ex.fresh('opaque_' + fn, BoolS))
        if fn in ('itercalls', 'ncall', 'iterselect', 'selectchan') and getattr(ex, 'assume_mode', 0):
            raise EngineError('%s used in a clause that callers assume' % fn)
        if fn == 'spawnedbefore':
            # every goroutine was started before object x was allocated (so it cannot reference x)
            x = ev(args[0])
            if not (isinstance(x.x, PAddr) and x.x.cid is not None):
                return V('bool', z3.BoolVal(False))
            ok = all(t[4] < -x.x.cid for t in st.trace if t[0] == 'go')
            return V('bool', z3.BoolVal(ok))
        if fn == 'spawnfn':
            # name of the function started by the i-th go statement is args[1] (string literal)
            i = ev(args[0]).x
            gos = [t for t in st.trace if t[0] == 'go']
            want = args[1][1]
            okv = i < len(gos) and isinstance(gos[i][1].x, Clo) and gos[i][1].x.fn.endswith(want)
            return V('bool', z3.BoolVal(bool(okv)))
        if fn == 'finalizer':
            # finalizer(obj, "fname"): SetFinalizer(obj, fname) was called
            x = ev(args[0])
            want = args[1][1]
            okv = any(t[0] == 'finalizer' and ex.term(t[1]).eq(ex.ts.box(V(x.t, x.x))) if False else
                      (t[0] == 'finalizer' and t[3] == want and t[4].eq(ex.term(x))) for t in st.trace)
            return V('bool', z3.BoolVal(bool(okv)))
        if fn == 'closed':
            ch = ev(args[0])
            goals = [t[1] == ex.term(ch) for t in st.trace if t[0] == 'close']
            return V('bool', z3.Or(*goals) if goals else z3.BoolVal(False))
        if fn == 'itercalls':
            want = args[0][1]
            mark = getattr(st, 'loop_mark', 0)
            return LIT(len([t for t in st.trace[mark:] if t[0] == 'call' and self.prog.short(t[1]).endswith(want)]))
        if fn == 'iterselect':
            mark = getattr(st, 'loop_mark', 0)
            sels = [t for t in st.trace[mark:] if t[0] == 'select']
            if len(sels) != 1:
                raise EngineError('iterselect: %d select statements in this iteration' % len(sels))
            return V('int', sels[0][1])
        if fn == 'selectchan':
            # selectchan(i): channel of case i of the iteration's select statement
            mark = getattr(st, 'loop_mark', 0)
            sels = [t for t in st.trace[mark:] if t[0] == 'select']
            i = ev(args[0]).x
            return V('$addr', PAddr(base=sels[0][2][i], lo=-10**9))
        if fn == 'tickerchan':
            # the channel of the ticker created by this function with the given period
            d = ev(args[0])
            tk = [t for t in st.trace if t[0] == 'ticker']
            if len(tk) != 1:
                return V('bool', z3.BoolVal(False))
            return V('bool', z3.And(tk[0][1] == d.x, z3.BoolVal(True)))
        if fn == 'monitorOK':
            # every store of 0 to the resize flag happens with a mutex held and is followed by Broadcast before that
            # mutex is released (no lost wake-up)
            ok = True
            tr = st.trace
            for i, t in enumerate(tr):
                if t[0] == 'access' and t[1] == 'atomic-store' and t[5] and t[5][1] == 'resizing':
                    heldm = [h for h in t[4] if h[1] == 'mutex']
                    if not heldm:
                        ok = False
                        continue
                    nb = next((j for j in range(i + 1, len(tr)) if tr[j][0] == 'broadcast'), None)
                    nr = next((j for j in range(i + 1, len(tr)) if tr[j][0] == 'release'), None)
                    if nb is None or nr is None or nb > nr:
                        ok = False
            return V('bool', z3.BoolVal(ok))
        if fn == 'validated':
            return V('bool', self.validated_goal(ex, st))
        if fn == 'flagwon':
            # this path won the resize flag (a successful CAS on m.resizing)
            return V('bool', z3.BoolVal(any(t[0] == 'flagwon' for t in st.trace)))
        if fn == 'currenttable':
            # the value of the table pointer loaded after this path last won the resize flag (nil if there is none):
            # while the flag is held no other goroutine replaces the table, so that value is the current table
            idx = [i for i, t in enumerate(st.trace) if t[0] == 'flagwon']
            loads = [t for t in st.trace[(idx[-1] if idx else len(st.trace)):] if t[0] == 'tblload']
            if not loads:
                return V('$addr', PAddr(base=NIL, lo=0))
            return loads[0][1]
        if fn == 'validatedtable':
            # the table that the most recent newerTableExists(table) call of this path was asked about (nil if none)
            calls = [t for t in st.trace if t[0] == 'call' and self.prog.short(t[1]).endswith('.newerTableExists')]
            if not calls:
                return V('$addr', PAddr(base=NIL, lo=0))
            return calls[-1][2][1]
        if fn == 'ncb':
            f = ev(args[0])
            ft = ex.term(f)
            return LIT(len([t for t in st.trace if t[0] == 'cb' and t[1] is not None and t[1].eq(ft)]))
        if fn == 'nacquire':
            return LIT(len([t for t in st.trace if t[0] == 'acquire']))
        if fn == 'nblocking':
            return LIT(len([t for t in st.trace if t[0] in ('blocking', 'condwait')]))
        if fn == 'nheld':
            return LIT(len(getattr(st, 'held', ())))
        if fn == 'holds':
            pv = ev(args[0])
            lid = ex.lock_id(pv.x)
            return V('bool', z3.BoolVal(any(h.eq(lid) for (h, kd) in getattr(st, 'held', ()))))
        if fn == 'lastret':
            want = args[0][1]
            j = ev(args[1]).x
            rets = [t for t in st.trace if t[0] == 'ret' and self.prog.short(t[1]).endswith(want)]
            if not rets:
                # no such call on this path yet: an unconstrained value of the callee's result type
                try:
                    for fnn, ff in self.prog.funcs.items():
                        if self.prog.short(fnn).endswith(want) and '$' not in fnn:
                            rts = (self.prog.under(ff['sig'])[1].get('results') or [])
                            if j < len(rts):
                                return ex.fresh_val(rts[j], 'noret', st)
                except Exception:
                    pass
                return V('bool', ex.fresh('noret', BoolS))
            return rets[-1][2][j]
        if fn == 'deref':
            pv = ev(args[0])
            tt = self.prog.under(pv.t)[1]
            return ex.load(st, tt['elem'], pv.x)
        if fn == 'ncall':
            want = args[0][1]
            return LIT(len([t for t in st.trace if t[0] == 'call' and self.prog.short(t[1]).endswith(want)]))
        if fn == 'wfslice':
            x = ev(args[0])
            b, ln, cp = x.x
            return V('bool', z3.And(ln.x >= 0, ln.x <= cp.x, cp.x < (1 << 62), z3.Implies(ln.x > 0, Addr.aid(ex.term(b)) != 0)))
        if fn == 'len':
            x = ev(args[0])
            return x.x[1]
        if fn == 'card':
            m = ev(args[0])
            f = z3.Function('Card_' + mangle(str(m.x.sort())), m.x.sort(), BV64)
            return V('int', f(m.x))
        if fn == 'bv2int':
            x = ev(args[0])
            return V(('$mathint',), z3.BV2Int(x.x, self.signed(ex, x)))
        if fn == 'inv':
            # opaque object invariant of an object owned by another package
            o = ev(args[0])
            g = st.ghost.setdefault('$inv', z3.Const('g0_inv', z3.ArraySort(Addr, BoolS)))
            return V('bool', z3.Select(g, ex.term(o)))
        if fn == 'apply':
            f = ev(args[0])
            vals = [ev(a) for a in args[1:]]
            sig = self.prog.under(f.t)[1]
            rts = sig.get('results') or []
            uf = z3.Function('apply_' + mangle(self.prog.under(f.t)[0]), Fn, *[ex.term(a).sort() for a in vals], ex.ts.sort(rts[0]))
            return V(rts[0], uf(ex.term(f), *[ex.term(a) for a in vals]))
        if fn == 'as':
            x = ev(args[0])
            t = self.resolve_type(ex, self.typearg(args[1]))
            return V(t, x.x)
        if fn == 'load':
            t = self.resolve_type(ex, self.typearg(args[0]))
            pv = ev(args[1])
            return ex.load(st, t, pv.x)
        if fn == 'addr':
            pl = self.place(ex, args[0], env, st, old)
            if pl is None:
                raise EngineError('addr() of a non-place')
            return V(self.ptr_to(pl[1]), pl[0])
        if fn in ('u64', 'i64'):
            x = ev(args[0])
            if self.is_lit(x):
                return V('uint64' if fn == 'u64' else 'int64', z3.BitVecVal(x.x, 64))
            w = x.x.size()
            if w == 64:
                return V('uint64' if fn == 'u64' else 'int64', x.x)
            ext = z3.SignExt(64 - w, x.x) if self.signed(ex, x) else z3.ZeroExt(64 - w, x.x)
            return V('uint64' if fn == 'u64' else 'int64', ext)
        if fn == 'typed':
            # typed(T, literal)
            t = self.resolve_type(ex, self.typearg(args[0]))
            return self.lit_as(ex, ev(args[1]), ex.zero(t))
        if fn == 'allocated':
            # p refers to an object that exists in this state (not one the current path allocates later)
            x = ev(args[0])
            esc = set(getattr(st, 'escaped', ()) or ())
            private = [c for c in range(-st.nalloc, 0) if c not in esc]
            if isinstance(x.x, PAddr) and x.x.cid is not None:
                return V('bool', z3.BoolVal(x.x.cid >= -st.nalloc and x.x.cid not in private))
            a = Addr.aid(ex.term(x))
            # exists now, and is not one of the objects only this path can reach (allocated here, address never stored)
            return V('bool', z3.And(a >= -st.nalloc, *[a != c for c in private]))
        if fn == 'hastype':
            # hastype(p, "T"): address p denotes a variable of Go type T (see symex.assume_ptype)
            x = ev(args[0])
            t = self.resolve_type(ex, self.typearg(args[1]))
            return V('bool', ex.ptype_fact(ex.term(x), t))
        if fn == 'objid':
            # identity of the allocation (object) an address lies in; interior pointers share it with the object
            x = ev(args[0])
            return V(('$mathint',), Addr.aid(ex.term(x)))
        if fn == 'fresh':
            x = ev(args[0])
            if isinstance(x.x, PAddr) and x.x.cid is not None:
                return V('bool', z3.BoolVal(True))
            return V('bool', Addr.aid(ex.term(x)) < 0)
        if fn in self.ghost_decl:
            g = self.ghost_get(ex, st, fn)
            return self.index(ex, g, ev(args[0]), st)
        # a pure Go function of the program, executed symbolically (loop-free helpers)
        target = self.prog.find_func(fn)
        if target and self.intrinsic(target) is not None:
            f = self.prog.funcs[target]
            vals = []
            for a, p in zip(args, f['params']):
                v = ev(a)
                if self.is_lit(v):
                    v = self.lit_as(ex, v, ex.zero(p['t']))
                vals.append(V(p['t'], v.x))
            out = []
            sig = self.prog.under(f['sig'])[1]
            self.intrinsic(target)(ex, Frame({'name': target, 'blocks': []}), {'pos': '', 'name': None, 'type': (sig.get('results') or [None])[0]},
                                   target, vals, st.copy(), lambda s2, r: out.append(r))
            return out[0]
        if target:
            f = self.prog.funcs[target]
            vals = []
            for a, p in zip(args, f['params']):
                v = ev(a)
                if self.is_lit(v):
                    v = self.lit_as(ex, v, ex.zero(p['t']))
                vals.append(V(p['t'], v.x))
            out = []
            st2 = st.copy()
            n0 = len(ex.obls)
            ex.pure_depth = getattr(ex, 'pure_depth', 0) + 1
            try:
                ex.run_fn(target, vals, st2, lambda s, r: out.append((s, r)))
            finally:
                ex.pure_depth -= 1
            del ex.obls[n0:]
            if not out:
                raise EngineError('pure call %s produced no result' % fn)
            # merge results by path condition
            res = out[-1][1][0]
            base = len(st.pc)
            for s, r in reversed(out[:-1]):
                cond = z3.And(*s.pc[base:]) if len(s.pc) > base else z3.BoolVal(True)
                res = self.ite(ex, cond, r[0], res)
            return res
        raise EngineError('unknown spec function ' + fn)

    def typearg(self, a):
        # reconstruct a type name from an expression AST
        if a[0] == 'id':
            return a[1]
        if a[0] == 'field':
            return self.typearg(a[1]) + '.' + a[2]
        if a[0] == 'str':
            return a[1]
        raise EngineError('bad type argument')

    def old_env(self, env):
        ent = [k for k in env if k.startswith('$entry$')]
        if not ent:
            return env
        env = dict(env)
        for k in ent:
            env[k[len('$entry$'):]] = env[k]
        return env

    def ite(self, ex, c, a, b):
        if isinstance(a.x, list):
            return V(a.t, [self.ite(ex, c, p, q) for p, q in zip(a.x, b.x)])
        if isinstance(a.x, PAddr) or isinstance(b.x, PAddr):
            return V(a.t, PAddr(base=z3.If(c, ex.term(a), ex.term(b)), lo=-10 ** 9))
        return V(a.t, z3.If(c, a.x, b.x))

    # ------------------------------------------------------------------------------------------
    # caller side: apply a contract at a call site
    # ------------------------------------------------------------------------------------------
    def bind_params(self, ex, f, args):
        env = {}
        for p, a in zip(f['params'], args):
            env[p['n']] = ('val', a)
        for old_n, new_n in ((getattr(self.prog, 'renamed_locals', None) or {}).get(f.get('name')) or {}).items():
            if old_n not in env and new_n in env:
                env[old_n] = env[new_n]
        return env

    def result_names(self, f):
        names = []
        for i, n in enumerate(f.get('resultnames') or []):
            names.append(['res%d' % i] + ([n] if n and n != '_' else []))
        return names

    def apply_contract(self, ex, fr, ins, con, name, args, st, k):
        f = self.prog.funcs[name]
        env = self.bind_params(ex, f, args)
        callee = self.prog.short(name)
        site = 'L' + ex.line(ins)
        same_pkg = (self.prog.funcs.get(ex.cur_fn) or {}).get('pkg') == con.pkg if ex.cur_fn in self.prog.funcs else False
        for c in con.of('requires'):
            if c.extra.get('private') and not same_pkg:
                continue
            g = self.eval_bool(ex, c.expr, env, st, st)
            ex.oblige(st, '%s/%s/pre.%s.%s@%s' % (ex.tagstr(c), ex.short_fn(), callee, c.label or 'r%d' % c.ordinal, site), g,
                      tags=c.tags, where='%s:%d' % (c.file, c.line), kind='pre')
            st.pc.append(g)
        for a_ in args:
            if isinstance(a_, V) and isinstance(a_.x, PAddr) and a_.x.cid is not None and a_.x.cid < 0:
                ex.note_escape(st, a_.x.term() if not a_.x.path else PAddr(cid=a_.x.cid).term())
        self.on_contract_call(ex, fr, ins, con, name, args, st)
        self.call_effects(ex, fr, ins, con, name, env, st)
        old = st.copy()
        sig = self.prog.under(f['sig'])[1]
        rts = sig.get('results') or []
        # result types as seen by the caller (instantiated) when available
        if ins.get('type') and len(rts) == 1:
            rts = [ins['type']]
        elif ins.get('type') and len(rts) > 1:
            rts = self.prog.ty(ins['type'])['elems']
        results = [ex.fresh_val(rt, 'ret_' + mangle(callee)[-20:], st) for rt in rts]
        for names, r in zip(self.result_names(f), results):
            for n in names:
                env[n] = ('val', r)
        clauses = [c for c in con.clauses if c.kind in ('let', 'calls', 'ensures', 'modifies', 'iterates')]
        state = {'havocked': False}

        def finish(st2):
            pa = getattr(st2, 'pending_action', None)
            if pa is not None and pa[0] == name:
                st2.actions = list(getattr(st2, 'actions', [])) + [(pa[0], pa[1], dict(st2.ghost), pa[2])]
                st2.pending_action = None
                self.on_action(ex, st2, pa, env)
            st2.trace.append(('ret', name, list(results)))
            if len(results) == 0:
                k(st2, None)
            elif len(results) == 1:
                k(st2, results[0])
            else:
                k(st2, tuple(results))

        def do_havoc(st2, env2):
            if state['havocked']:
                return
            state['havocked'] = True
            for c in con.of('modifies'):
                if c.extra.get('private') and not same_pkg:
                    continue
                for item in c.extra['items']:
                    self.havoc_item(ex, item, env2, st2, old)

        def step(i, st2, env2, havocked):
            if i == len(clauses):
                if not havocked:
                    self.havoc_all(ex, con, env2, st2, old)
                    self.callee_reenters(ex, con, st2, site, env2)
                return finish(st2)
            c = clauses[i]
            if c.kind == 'modifies':
                return step(i + 1, st2, env2, havocked)
            if c.kind == 'let':
                env3 = dict(env2)
                env3[c.extra['var']] = ('val', self.eval(ex, c.expr, env2, st2, old))
                return step(i + 1, st2, env3, havocked)
            if c.kind == 'calls':
                return self.calls_caller(ex, fr, ins, c, env2, st2, old, lambda s, e: step(i + 1, s, e, havocked))
            if c.kind == 'iterates':
                return self.iterates_caller(ex, fr, ins, con, c, env2, st2, old, lambda s, e: step(i + 1, s, e, True))
            if c.kind == 'ensures' and c.extra.get('private') and not same_pkg:
                return step(i + 1, st2, env2, havocked)
            if c.kind == 'ensures' and self.mentions_trace(c.expr):
                # a fact about the callee's own execution trace (effects, invocation counts): proved for the callee,
                # nothing to assume at the call site
                return step(i + 1, st2, env2, havocked)
            if c.kind == 'ensures':
                if not havocked:
                    self.havoc_all(ex, con, env2, st2, old)
                    self.callee_reenters(ex, con, st2, site, env2)
                    havocked = True
                ex.assume_mode = getattr(ex, 'assume_mode', 0) + 1
                try:
                    g = self.eval_bool(ex, c.expr, env2, st2, old)
                finally:
                    ex.assume_mode -= 1
                st2.pc.append(g)
                return step(i + 1, st2, env2, havocked)
            raise EngineError('clause kind ' + c.kind)

        step(0, st, env, False)

    def callee_reenters(self, ex, con, st, site, env=None):
        if not con.of('reenters'):
            return
        recv = None
        f2 = self.prog.funcs.get(con.fn)
        if env is not None and f2 and f2.get('hasrecv') and f2['params']:
            rp = f2['params'][0]
            if rp['n'] in env:
                recv = (env[rp['n']][1], rp['t'])
        pure = ex.fresh('cbpure', BoolS)
        locked = getattr(st, 'locked', 0)
        ex.oblige(st, 'C13/%s/callback.unlocked@%s' % (ex.short_fn(), site), z3.BoolVal(locked == 0), tags=['C13', 'C06'],
                  kind='discipline')
        st.trace.append(('cb', None, [], [], site, pure, locked))
        if getattr(ex, 'dry', 0):
            return
        self.reentrant_havoc(ex, st, pure, recv=recv)

    def call_effects(self, ex, fr, ins, con, name, env, st):
        """`effect` clauses of the callee: acquires p / releases p (lock set), nolocks (caller must hold no internal lock:
        the callee may block or take locks itself), blocking (the callee may wait for other goroutines)."""
        callee = self.prog.short(name)
        for c in con.of('effect'):
            words = c.extra['arg'].split()
            if not words:
                continue
            if words[0] == 'acquires':
                pv = self.eval(ex, specparse.parse_expr(' '.join(words[1:])), env, st, st)
                ex.acquire(st, pv.x, ins)
            elif words[0] == 'releases':
                pv = self.eval(ex, specparse.parse_expr(' '.join(words[1:])), env, st, st)
                ex.release(st, pv.x, ins)
            if 'nolocks' in words or 'blocking' in words:
                held = getattr(st, 'held', ())
                ex.oblige(st, 'C13/%s/call.%s.no-lock-held@L%s' % (ex.short_fn(), callee, ex.line(ins)), z3.BoolVal(len(held) == 0),
                          tags=['C13'], kind='discipline')
            if 'blocking' in words:
                st.trace.append(('blocking', name, ex.line(ins)))

    def is_shared_call(self, name):
        return name.startswith('(*' + IR.XPKG + '.Map') and '$' not in name

    def env_step(self, ex, st):
        """Interference mode: other goroutines ran an arbitrary number of operations on the shared container: its
        abstract contents are arbitrary, subject to the invariants that every operation preserves (the `requires`
        clauses of the function under proof, which are object invariants)."""
        ex.env_epochs = getattr(ex, 'env_epochs', 0) + 1
        st.env_epoch = ex.env_epochs
        for g in list(st.ghost.keys()):
            if g.startswith('view$'):
                del st.ghost[g]       # re-created on demand under a name unique to this environment step
        con = ex.cur_contract
        if con is not None:
            for c in con.of('requires'):
                try:
                    st.pc.append(self.eval_bool(ex, c.expr, ex.cur_env, st, st))
                except EngineError:
                    pass

    def lock_env_step(self, ex, st, p):
        """Table-interference mode: the function has just acquired a bucket lock.  Other goroutines ran arbitrarily
        long before that: all shared memory, the table ghosts and the abstract contents are arbitrary, subject to the
        `onlock` clauses of the contract (the representation invariant at a point where no other writer is in the
        middle of an update of this chain).  From here to the release the region is treated as one atomic step
        (mutual exclusion per chain + validation; DESIGN.md 5): old(.) denotes this state, entry `let`s are re-bound."""
        con = ex.cur_contract
        if con is None or not con.of('onlock'):
            return
        before = st.copy()
        ex.env_epochs = getattr(ex, 'env_epochs', 0) + 1
        st.env_epoch = ex.env_epochs
        for g in list(st.ghost.keys()):
            if g.startswith('view$'):
                del st.ghost[g]
        for g in self.ghost_decl:
            cur = self.ghost_get(ex, st, g).x      # (created on demand)
            st.ghost[g] = ex.fresh('gLK_' + mangle(g), cur.sort())
        for key, cell in st.mem.items():
            keep = [(q, v) for (q, v) in cell[1] if q.cid is not None]
            cell[0] = ex.fresh('MLK_' + mangle(key), cell[0].sort())
            cell[1] = keep
        env = dict(ex.cur_env)
        fr = getattr(ex, 'cur_fr', None)
        if fr is not None and fr.f['name'] == ex.cur_fn:
            env = dict(ex.local_env(fr, st))
        env['lk'] = ('val', V('$addr', p))
        for c in con.of('onlock'):
            st.pc.append(self.eval_bool(ex, c.expr, env, st, before))
        st.lk_old = None
        st.lk_post = None
        snap = st.copy()
        for c in con.clauses:
            if c.kind == 'let':
                try:
                    st.lets[c.extra['var']] = self.eval(ex, c.expr, env, st, snap)
                except EngineError:
                    pass
            elif c.kind in ('calls', 'ensures'):
                break
        snap.lets = dict(st.lets)
        st.lk_old = snap

    TRACE_FNS = {'flagwon', 'currenttable', 'validatedtable', 'nacquire', 'nblocking', 'nheld', 'holds', 'ncb', 'ncall', 'lastret', 'validated', 'monitorOK', 'itercalls',
                 'iterselect', 'selectchan', 'tickerchan', 'spawnedbefore', 'spawnfn', 'finalizer', 'closed'}

    def mentions_trace(self, e):
        if not isinstance(e, tuple):
            return False
        if e[0] == 'call' and e[1] in self.TRACE_FNS:
            return True
        if e[0] == 'call' and e[1] in self.sf.defines:
            if self.mentions_trace(self.sf.defines[e[1]][1]):
                return True
        for x in e[1:]:
            if isinstance(x, tuple) and self.mentions_trace(x):
                return True
            if isinstance(x, list):
                for y in x:
                    if isinstance(y, tuple) and self.mentions_trace(y):
                        return True
        return False

    def on_contract_call(self, ex, fr, ins, con, name, args, st):
        st.trace.append(('call', name, [a for a in args], ex.line(ins)))
        cc = ex.cur_contract
        if cc is not None and not getattr(ex, 'dry', 0) and fr.f['name'] == ex.cur_fn:
            # `oncall <method or function name>: expr` -- obligation at every call of that callee (arg0 = receiver, ...)
            mname = self.prog.short(name).rsplit('.', 1)[-1]
            for cl in cc.of('oncall'):
                if cl.extra['fn'] != mname or not ex.active(cl) or cl.extra['fn'] in ex.cur_env:
                    continue
                e2 = dict(ex.cur_env)
                e2.update(ex.local_env(fr, st))
                for j, a in enumerate(args):
                    e2['arg%d' % j] = ('val', a)
                g = self.eval_bool(ex, cl.expr, e2, st, ex.old_for(st))
                ex.oblige(st, '%s/%s/oncall.%s.%s@L%s' % (ex.tagstr(cl), ex.short_fn(), mname, cl.label or 'c%d' % cl.ordinal, ex.line(ins)), g,
                          tags=cl.tags, where='%s:%d' % (cl.file, cl.line), kind='oncall')
        if ex.mode == 'intf' and self.is_shared_call(name) and not getattr(ex, 'dry', 0):
            self.env_step(ex, st)
            st.pending_action = (name, st.copy(), ex.line(ins), fr)

    def on_action(self, ex, st, pa, callee_env):
        """`at <callee>: step ...` clauses of the function under proof: obligations about one atomic action on the shared
        container (old = the state right before the action, after the environment step)."""
        name, before, line, frx = pa
        callee = self.prog.short(name)
        for cl in self.site_clauses(ex, callee, 'step'):
            e2 = dict(ex.local_env(frx, st))
            e2.update(ex.cur_env)
            for kx, vx in callee_env.items():
                e2['$' + kx] = vx
            # the callee's parameters are visible as act_<name>
            for kx, vx in callee_env.items():
                e2['act_' + kx] = vx
            g = self.eval_bool(ex, cl.expr, e2, st, before)
            ex.oblige(st, '%s/%s/step.%s.%s@L%s' % (ex.tagstr(cl), ex.short_fn(), callee, cl.label or 's%d' % cl.ordinal, line), g,
                      tags=cl.tags, where='%s:%d' % (cl.file, cl.line), kind='step')

    # ---- access discipline (C14) -------------------------------------------------------------------------------
    ATOMIC_ONLY = {('Map', 'table'), ('Map', 'resizing'), ('Map', 'totalGrowths'), ('Map', 'totalShrinks'),
                   ('MapOf', 'table'), ('MapOf', 'resizing'), ('MapOf', 'totalGrowths'), ('MapOf', 'totalShrinks')}
    BUCKET_WORDS = {('bucket', 'next'), ('bucket', 'keys'), ('bucket', 'values'), ('bucket', 'topHashMutex'),
                    ('bucketOf', 'meta'), ('bucketOf', 'entries'), ('bucketOf', 'next')}
    COUNTER = {('counterStripe', 'c')}

    def chain_root(self, ex, st, t, ridx, kind):
        """Address term of the root bucket number ridx of table t (t.buckets is field 0 of both table structs)."""
        tp = PAddr(base=t, lo=-10 ** 9)
        sb = ex.load_leaf(st, Addr, tp.ext(0).ext(0))
        return Addr.mkaddr(Addr.aid(sb), Path.pcons(ridx, Addr.apath(sb)))

    def access_discipline(self, ex, st, kind, p, ins, info, fr):
        """Every access to a shared location class gets an obligation (decided per path):
        table/flag words: atomic only; bucket words of a published table: atomic load anywhere, plain load only under
        the bucket lock, stores atomic and under the lock; objects allocated by this call and not yet published, and
        tables that the function's contract declares unpublished (`effect builder`), may be accessed plainly."""
        if info is None:
            return
        key = (info[0], info[1])
        if info[0] in ('xsyncMap', 'xsyncMapOf') and kind == 'plain-store':
            # the cache object is shared by every goroutine that uses the cache (and by the janitor); its fields are
            # written by the constructor only -- configuration that changes later lives in atomic.Value fields, the
            # contents in the concurrent map.  A plain store to a field of an existing cache object is a data race with
            # any concurrent method.
            fresh_ = p.cid is not None and p.cid < 0
            ex.oblige(st, 'C14/%s/access.%s.%s.write-once@L%s' % (ex.short_fn(), info[0], info[1], ex.line(ins)),
                      z3.BoolVal(bool(fresh_)), tags=['C14'], kind='discipline')
            return
        if key not in self.ATOMIC_ONLY and key not in self.BUCKET_WORDS and key not in self.COUNTER:
            return
        fresh = p.cid is not None and p.cid < 0
        con = ex.cur_contract
        builder = con is not None and any('builder' in c.extra.get('arg', '') for c in con.of('effect'))
        held = len(getattr(st, 'held', ())) > 0
        atomic = kind.startswith('atomic')
        ok = True
        rule = ''
        if key in self.ATOMIC_ONLY:
            rule = 'atomic-only'
            ok = atomic or fresh
        elif key in self.BUCKET_WORDS:
            if kind == 'plain-load':
                rule = 'plain-load-needs-lock'
                ok = held or fresh or builder
            elif kind == 'plain-store':
                rule = 'plain-store-unpublished-only'
                ok = fresh or builder
            elif kind in ('atomic-store', 'atomic-rmw'):
                rule = 'store-needs-lock'
                ok = held or fresh or builder or info[1] == 'topHashMutex'
            else:
                return
        elif key in self.COUNTER:
            rule = 'counter-atomic'
            ok = atomic or fresh or builder
        ex.oblige(st, 'C14/%s/access.%s.%s.%s@L%s' % (ex.short_fn(), info[0], info[1], rule, ex.line(ins)), z3.BoolVal(bool(ok)),
                  tags=['C14'], kind='discipline')
        if key in self.BUCKET_WORDS and kind in ('atomic-store', 'atomic-rmw') and not fresh and not builder \
                and info[1] not in ('topHashMutex',) or (key in self.BUCKET_WORDS and kind == 'atomic-store' and info[1] == 'topHashMutex'
                                                         and not fresh and not builder and ex.short_fn().endswith('doCompute')):
            # validation discipline (C03/C04): a writer may store into a published bucket only after it has, with the
            # bucket lock held, seen no resize in progress and then seen that its table is still the current one
            ex.oblige(st, 'C03/%s/store.validated.%s.%s@L%s' % (ex.short_fn(), info[0], info[1], ex.line(ins)), self.validated_goal(ex, st),
                      tags=['C03', 'C04', 'C02'], kind='discipline')

    def validated_goal(self, ex, st):
        tr = st.trace
        last_acq = max([i for i, t in enumerate(tr) if t[0] == 'acquire'] + [-1])
        if last_acq < 0 or not getattr(st, 'held', ()):
            return z3.BoolVal(False)
        r1 = next((i for i in range(last_acq + 1, len(tr)) if tr[i][0] == 'ret' and tr[i][1].endswith('.resizeInProgress')), None)
        if r1 is None:
            return z3.BoolVal(False)
        r2 = next((i for i in range(r1 + 1, len(tr)) if tr[i][0] == 'ret' and tr[i][1].endswith('.newerTableExists')), None)
        if r2 is None:
            return z3.BoolVal(False)
        return z3.And(z3.Not(tr[r1][2][0].x), z3.Not(tr[r2][2][0].x))


    def havoc_all(self, ex, con, env, st, old):
        same_pkg = (self.prog.funcs.get(ex.cur_fn) or {}).get('pkg') == con.pkg if ex.cur_fn in self.prog.funcs else False
        for c in con.of('modifies'):
            if c.extra.get('private') and not same_pkg:
                continue
            for item in c.extra['items']:
                self.havoc_item(ex, item, env, st, old)

    def havoc_item(self, ex, item, env, st, old):
        e = specparse.parse_expr(item)
        if e[0] == 'call' and e[1] == 'view':
            m = self.eval(ex, e[2][0], env, old, old)
            kt, vt = self.map_kv(ex, m.t)
            ks, vs = ex.ts.sort(kt), ex.ts.sort(vt)
            arr = self.view_get(ex, st, ks, vs)
            st.ghost[self.view_name(ks, vs)] = z3.Store(arr, ex.term(m), ex.fresh('view', z3.ArraySort(ks, ex.ts.opt_sort(vs))))
            return
        if e[0] == 'call' and e[1] == 'inv':
            return
        if e[0] == 'call' and e[1] == 'ledger':
            f = self.eval(ex, e[2][0], env, old, old)
            names, pts = self.ledger(ex, st, self.sig_of(ex, f.t))
            for n in names:
                st.ghost[n] = ex.fresh('g_' + mangle(n), st.ghost[n].sort())
            return
        if e[0] == 'id' and e[1] in self.ghost_decl:
            g = self.ghost_get(ex, st, e[1])
            st.ghost[e[1]] = ex.fresh('g_' + e[1], g.x.sort())
            return
        if e[0] == 'call' and e[1] in self.ghost_decl:
            g = self.ghost_get(ex, st, e[1])
            idx = self.eval(ex, e[2][0], env, old, old)
            st.ghost[e[1]] = z3.Store(g.x, ex.term(idx), ex.fresh('g_' + e[1], g.x.sort().range()))
            return
        if e[0] == 'call' and e[1] == 'mem':
            # mem(lvalue): the memory of a Go lvalue (all leaves)
            p, t = self.lvalue(ex, e[2][0], env, old)
            ex.store(st, p, ex.fresh_val(t, 'hv', st))
            return
        if e[0] == 'id' and e[1] == 'allghost':
            for g in list(st.ghost.keys()):
                if g.startswith('$now'):
                    continue
                st.ghost[g] = ex.fresh('gC_' + mangle(g), st.ghost[g].sort())
            st.ghost.setdefault('$nspawn', z3.Const('g0_nspawn', BV64))
            st.ghost['$nspawn'] = ex.fresh('gC_nspawn', BV64)
            return
        if e[0] == 'id' and e[1] == 'allmem':
            ex.collapse_mem(st)
            ex.havoc_mem(st, tag='C')
            return
        raise EngineError('modifies item ' + item)

    def lvalue(self, ex, e, env, st):
        """Address and type of a Go lvalue expression x.f.g or *p"""
        if e[0] == 'call' and e[1] == 'deref':
            pv = self.eval(ex, e[2][0], env, st, st)
            tt = self.prog.under(pv.t)[1]
            return pv.x, tt['elem']
        pl = self.place(ex, e, env, st, st)
        if pl is not None:
            return pl
        if e[0] == 'field':
            base = self.eval(ex, e[1], env, st, st) if e[1][0] != 'field' else None
            if base is None:
                p, t = self.lvalue(ex, e[1], env, st)
                r = ex.ts.rep(t)
                for i, (fn, ft) in enumerate(r[1]):
                    if fn == e[2]:
                        return p.ext(i), ft
                raise EngineError('lvalue field')
            tt = self.prog.under(base.t)[1]
            et = tt['elem']
            r = ex.ts.rep(et)
            for i, (fn, ft) in enumerate(r[1]):
                if fn == e[2]:
                    return base.x.ext(i), ft
        raise EngineError('lvalue ' + str(e))

    def calls_caller(self, ex, fr, ins, c, env, st, old, k):
        e = c.expr
        when = None
        if e[0] == 'call' and e[1] == 'when':
            when = e[2][0]
            e = e[2][1]
        if e[0] != 'call':
            raise EngineError('calls clause must be a call')
        fv = self.eval(ex, ('id', e[1]), env, st, old)
        sig = self.prog.under(fv.t)[1]
        pts = sig.get('params') or []
        args = []
        for a, pt in zip(e[2], pts):
            v = self.eval(ex, a, env, st, old)
            if self.is_lit(v):
                v = self.lit_as(ex, v, ex.zero(pt))
            if self.is_poly(v):
                v = ex.zero(pt)
            args.append(V(pt, v.x))
        names = c.extra['results']

        def after(st2, res):
            env2 = dict(env)
            if res is not None:
                rs = res if isinstance(res, tuple) else (res,)
                for n, r in zip(names, rs):
                    env2[n] = ('val', r)
            k(st2, env2)

        lockd = 1 if c.extra.get('locked') else 0
        if lockd:
            st.locked = getattr(st, 'locked', 0) + 1
            after0 = after

            def after(st2, res, after0=after0):
                st2.locked = getattr(st2, 'locked', 1) - 1
                after0(st2, res)
        if when is None:
            return ex.call_value(fr, ins, fv, args, st, after)
        cond = self.eval_bool(ex, when, env, st, old)
        st_yes = st.copy()
        st_yes.pc.append(cond)
        ex.call_value(fr.fork(), ins, fv, args, st_yes, after)
        st_no = st.copy()
        st_no.pc.append(z3.Not(cond))
        rts = sig.get('results') or []
        env2 = dict(env)
        for n, rt in zip(names, rts):
            env2[n] = ('val', ex.fresh_val(rt, 'nocall', st_no))
        k(st_no, env2)

    def havoc_for_history(self, ex, st):
        """An arbitrary earlier state of the container (all view ghosts arbitrary)."""
        for g in list(st.ghost.keys()):
            if g.startswith('view$'):
                st.ghost[g] = ex.fresh('gH_' + mangle(g), st.ghost[g].sort())

    def havoc_everything(self, ex, st, tag):
        ex.collapse_mem(st)
        ex.havoc_mem(st, tag=tag)
        for g in list(st.ghost.keys()):
            if g.startswith('$now'):
                continue
            st.ghost[g] = ex.fresh('g%s_%s' % (tag, mangle(g)), st.ghost[g].sort())

    def closure_written_cells(self, ex, clo, depth=0):
        """Captured cells (bindings) the closure may write: Store whose address derives from a free variable."""
        f = self.prog.funcs.get(clo.fn)
        out = []
        if f is None:
            return out
        derived = {}
        for i, fvr in enumerate(f['freevars']):
            derived[fvr['n']] = i
        for b in f['blocks']:
            for x in b['instrs']:
                if x['op'] in ('FieldAddr', 'IndexAddr') and x['x'].get('n') in derived and x['x']['k'] in ('freevar', 'reg'):
                    derived[x['name']] = derived[x['x']['n']]
        for b in f['blocks']:
            for x in b['instrs']:
                if x['op'] == 'Store' and x['addr'].get('n') in derived:
                    out.append(clo.bindings[derived[x['addr']['n']]])
                if x['op'] == 'MapUpdate':
                    pass
        return out

    def havoc_iteration(self, ex, st, fv, tag, argtypes, pure):
        """State at the start of an arbitrary iteration of a higher-order traversal.  What one visitor invocation can
        modify is inferred by a dry run of the visitor on arbitrary arguments (obligations discarded): ghost
        variables it changes and memory cells it writes become arbitrary; on top of that the effect of re-entrant
        callbacks (frames of the exported methods) applies unless everything so far was pure (`pure`)."""
        st_d = st.copy()
        n_obl = len(ex.obls)
        n_cov = len(ex.covers)
        args = [ex.fresh_val(t, 'dry', st_d) for t in argtypes]
        outs = []
        ex.dry = getattr(ex, 'dry', 0) + 1
        saved_paths = ex.paths
        try:
            fr0 = Frame({'name': ex.cur_fn, 'blocks': []})
            ex.call_value(fr0, {'pos': '', 'name': None}, fv, args, st_d, lambda s2, r: outs.append(s2))
        finally:
            ex.dry -= 1
            del ex.obls[n_obl:]
            del ex.covers[n_cov:]
            ex.paths = saved_paths
        return ex.apply_inferred_havoc(st, outs, tag, pure)

    def site_clauses(self, ex, callee_short, what):
        con = ex.cur_contract
        out = []
        if con is None:
            return out
        for cl in con.of('at'):
            if cl.extra['what'] == what and (cl.extra['site'] == callee_short or callee_short.endswith('.' + cl.extra['site'])):
                if ex.active(cl):
                    out.append(cl)
        return out

    def iterates_caller(self, ex, fr, ins, con, c, env, st, old, k):
        """`iterates f over view(m)` (higher-order contract of Range), sequential mode.

        The callee invokes f(k, v) for keys k, one at a time, never twice for the same key, with no lock held, where
        (k, v) was an entry of the map at some instant of the call; it stops when f returns false.  If every visitor
        invocation so far changed at most its own key (checked, under `cbpure`), then v is the key's current value
        and at normal exit every key present at entry has been visited.  The caller supplies the loop invariant
        (`at Range: invariant ...`, over the ghost set `visited`).
        """
        m0 = re.match(r'^(\w+)\s+over\s+(.*)$', c.extra['arg'])
        fv = self.eval(ex, ('id', m0.group(1)), env, st, old)
        mexpr = specparse.parse_expr(m0.group(2))

        def mapval(stx):
            """The traversed map in state stx (an expression over the callee's parameters)."""
            return self.eval(ex, mexpr, env, stx, old)
        M0v = mapval(st)
        kt, vt = M0v.t[1], M0v.t[2]
        ks, vs = ex.ts.sort(kt), ex.ts.sort(vt)
        callee = self.prog.short(con.fn)
        site = 'L' + ex.line(ins)
        invs = self.site_clauses(ex, callee, 'invariant')
        iters = self.site_clauses(ex, callee, 'iteration')
        fn_old = ex.old_for(st)
        caller_short = ex.short_fn()

        def cenv(frx, stx, extra):
            e2 = dict(ex.local_env(frx, stx))
            e2.update(ex.cur_env)
            e2.update(extra)
            return e2

        visT = ('$arr', kt, 'bool')
        V0 = M0v.x
        sp = {'view0': ('val', V(('$map', kt, vt), V0))}
        vis0 = z3.K(ks, z3.BoolVal(False))
        e0 = cenv(fr, st, dict(sp, visited=('val', V(visT, vis0))))
        for cl in invs:
            g = self.eval_bool(ex, cl.expr, e0, st, fn_old)
            ex.oblige(st, '%s/%s/iter.%s.%s.init@%s' % (ex.tagstr(cl), caller_short, callee, cl.label or 'inv%d' % cl.ordinal, site), g,
                      tags=cl.tags, where='%s:%d' % (cl.file, cl.line), kind='invariant')
        # ---- arbitrary iteration -------------------------------------------------------------------------------
        st1 = st.copy()
        pure_before = ex.fresh('iter_pure_before', BoolS)
        if not self.havoc_iteration(ex, st1, fv, 'I', [kt, vt], pure_before):
            # the visitor cannot run re-entrant code: nothing but the visitor itself changes the state
            st1.pc.append(pure_before)
        vis = ex.fresh('visited', z3.ArraySort(ks, BoolS))
        e1 = cenv(fr, st1, dict(sp, visited=('val', V(visT, vis))))
        for cl in invs:
            st1.pc.append(self.eval_bool(ex, cl.expr, e1, st1, fn_old))
        kk = ex.fresh_val(kt, 'it_k', st1)
        vv = ex.fresh_val(vt, 'it_v', st1)
        st1.pc.append(z3.Not(z3.Select(vis, ex.ts.pack(kk))))
        # weak fact: (kk, vv) was an entry of the traversed map in some state that satisfied the re-entry invariant
        sth = st1.copy()
        self.havoc_for_history(ex, sth)
        n0 = len(sth.pc)
        ccon = ex.cur_contract
        for cl in (ccon.of('reenters') if ccon else []):
            if cl.extra['arg']:
                sth.pc.append(self.eval_bool(ex, specparse.parse_expr(cl.extra['arg']), ex.cur_env, sth, sth))
        st1.pc.extend(sth.pc[n0:])
        st1.pc.append(z3.Select(mapval(sth).x, ex.ts.pack(kk)) == ex.ts.opt_some(vs, ex.ts.pack(vv)))
        # strong fact under purity of everything that ran so far
        view_pre = mapval(st1).x
        if ex.mode != 'intf':
            st1.pc.append(z3.Implies(pure_before, z3.Select(view_pre, ex.ts.pack(kk)) == ex.ts.opt_some(vs, ex.ts.pack(vv))))
        st1.trace = [t for t in st1.trace if t[0] != 'cb'] + [('cb', None, [], [], site, pure_before, 0)]
        st1.iter = (kk, vv)
        ntrace = len(st1.trace)
        if not getattr(ex, 'dry', 0):
            ex.covers.append(('cover/%s/iter.%s.body@%s' % (caller_short, callee, site), list(st1.pc)))

        def after(st2, res):
            cont = res.x
            vis2 = z3.Store(vis, ex.ts.pack(kk), z3.BoolVal(True))
            fr2 = fr
            e2 = cenv(fr2, st2, dict(sp, visited=('val', V(visT, vis2)), itk=('val', kk), itv=('val', vv),
                                     itret=('val', V('bool', cont))))
            pid = '.'.join(st2.pathid[len(st.pathid):])
            for cl in invs:
                g = self.eval_bool(ex, cl.expr, e2, st2, fn_old)
                ex.oblige(st2, '%s/%s/iter.%s.%s.preserve@%s#%s' % (ex.tagstr(cl), caller_short, callee, cl.label or 'inv%d' % cl.ordinal, site, pid),
                          g, tags=cl.tags, where='%s:%d' % (cl.file, cl.line), kind='invariant')
            evs = [t for t in st2.trace[ntrace:] if t[0] == 'cb' and t[1] is not None]
            e2['itcalls'] = ('val', LIT(len(evs)))
            if evs and evs[-1][3]:
                e2['itfret'] = ('val', evs[-1][3][0])
            for cl in iters:
                if 'itfret' not in e2 and 'itfret' in (cl.etext if hasattr(cl, 'etext') else ''):
                    continue
                g = self.eval_bool(ex, cl.expr, e2, st2, fn_old)
                ex.oblige(st2, '%s/%s/iter.%s.%s@%s#%s' % (ex.tagstr(cl), caller_short, callee, cl.label or 'it%d' % cl.ordinal, site, pid), g,
                          tags=cl.tags, where='%s:%d' % (cl.file, cl.line), kind='invariant')
            # own-key frame (premise of the strong fact), under purity of the user callbacks
            pure_now = z3.And(*[t[5] for t in st2.trace if t[0] == 'cb' and t[5] is not None] + [z3.BoolVal(True)])
            view_post = mapval(st2).x
            g = z3.Implies(pure_now, view_post == z3.Store(view_pre, ex.ts.pack(kk), z3.Select(view_post, ex.ts.pack(kk))))
            if ex.mode != 'intf':
                ex.oblige(st2, 'AUX/%s/iter.%s.ownkey-frame@%s#%s' % (caller_short, callee, site, pid), g, tags=[], kind='invariant')
            # visitor returned false: the traversal stops here
            st3 = st2.copy()
            st3.pc.append(z3.Not(cont))
            for cl in invs:
                st3.pc.append(self.eval_bool(ex, cl.expr, e2, st3, fn_old))
            st3.iter_exit = ('stopped', vis2)
            k(st3, dict(env, visited=('val', V(visT, vis2))))

        ex.call_value(fr.fork(), ins, fv, [kk, vv], st1, after)
        # ---- normal exit -----------------------------------------------------------------------------------------
        st4 = st.copy()
        pure_all = ex.fresh('iter_pure_all', BoolS)
        if not self.havoc_iteration(ex, st4, fv, 'E', [kt, vt], pure_all):
            st4.pc.append(pure_all)
        visE = ex.fresh('visitedE', z3.ArraySort(ks, BoolS))
        e4 = cenv(fr, st4, dict(sp, visited=('val', V(visT, visE))))
        for cl in invs:
            st4.pc.append(self.eval_bool(ex, cl.expr, e4, st4, fn_old))
        q = z3.Const('q_it', ks)
        if ex.mode != 'intf':
            st4.pc.append(z3.Implies(pure_all, z3.ForAll([q], z3.Implies(ex.ts.opt_is_some(vs, z3.Select(V0, q)), z3.Select(visE, q)))))
        st4.trace = [t for t in st4.trace if t[0] != 'cb'] + [('cb', None, [], [], site, pure_all, 0)]
        if not getattr(ex, 'dry', 0):
            ex.covers.append(('cover/%s/iter.%s.exit@%s' % (caller_short, callee, site), list(st4.pc)))
        k(st4, dict(env, visited=('val', V(visT, visE))))

    def ledger(self, ex, st, sigt):
        """Ghost ledger of callback invocations, one per function signature: count N, callee F[i], args Aj[i]."""
        key = mangle(sigt)
        sig = self.prog.under(sigt)[1]
        pts = sig.get('params') or []
        names = ['cbN$' + key, 'cbF$' + key] + ['cbA%d$%s' % (j, key) for j in range(len(pts))]
        sorts = [BV64, z3.ArraySort(BV64, Fn)] + [z3.ArraySort(BV64, ex.ts.sort(pt)) for pt in pts]
        rts = sig.get('results') or []
        if rts and ex.ts.rep(rts[0])[0] == 'bool':
            names.append('cbR$' + key)
            sorts.append(z3.ArraySort(BV64, BoolS))
        if pts:
            names.append('cbS$' + key)
            sorts.append(z3.ArraySort(Fn, z3.ArraySort(ex.ts.sort(pts[0]), BoolS)))
        for n, srt in zip(names, sorts):
            if n not in st.ghost:
                st.ghost[n] = z3.Const('g0_' + mangle(n), srt)
                if n.startswith('cbN$'):
                    # ghost counter: mathematically unbounded; assumed far from wrapping
                    st.pc.append(z3.And(st.ghost[n] >= 0, st.ghost[n] < (1 << 62)))
        return names, pts

    def sig_of(self, ex, t):
        u, r = self.prog.under(t)
        return u

    def on_opaque_call(self, ex, fr, ins, fv, args, rets, st):
        pure = None
        pol = self.callback_policy(ex, fv)
        sigt = self.sig_of(ex, fv.t)
        names, pts = self.ledger(ex, st, sigt)
        n = st.ghost[names[0]]
        # ghost counter = mathematical integer encoded in 64 bits: it never gets near wrapping
        st.pc.append(z3.And(n >= 0, n < (1 << 62)))
        st.ghost[names[1]] = z3.Store(st.ghost[names[1]], n, ex.term(fv))
        for j, a in enumerate(args):
            st.ghost[names[2 + j]] = z3.Store(st.ghost[names[2 + j]], n, ex.ts.pack(a))
        for nm in names:
            if nm.startswith('cbR$') and rets:
                st.ghost[nm] = z3.Store(st.ghost[nm], n, rets[0].x)
        st.ghost[names[0]] = n + 1
        if args and names[-1].startswith('cbS$'):
            S = st.ghost[names[-1]]
            st.ghost[names[-1]] = z3.Store(S, ex.term(fv), z3.Store(z3.Select(S, ex.term(fv)), ex.ts.pack(args[0]), z3.BoolVal(True)))
        self.oncall(ex, fr, ins, fv, args, st)
        locked = getattr(st, 'locked', 0)
        if pol == 'reentrant':
            pure = ex.fresh('cbpure', BoolS)
            ex.oblige(st, 'C13/%s/callback.unlocked@L%s' % (ex.short_fn(), ex.line(ins)), z3.BoolVal(locked == 0),
                      tags=['C13', 'C06'], kind='discipline')
        st.trace.append(('cb', ex.term(fv), [a for a in args], rets, ex.line(ins), pure, locked))
        if pol == 'reentrant':
            self.reentry(ex, st, pure, 'L' + ex.line(ins))

    def oncall(self, ex, fr, ins, fv, args, st):
        """`oncall f: expr` -- obligation at every invocation of the function-typed parameter f (arg0, arg1... bound)."""
        con = ex.cur_contract
        if con is None or getattr(ex, 'dry', 0):
            return
        for cl in con.of('oncall'):
            if not ex.active(cl):
                continue
            pname = cl.extra['fn']
            ent = ex.cur_env.get(pname)
            if not ent or not ex.term(ent[1]).eq(ex.term(fv)):
                continue
            e2 = dict(ex.cur_env)
            e2.update(ex.local_env(fr, st))
            for j, a in enumerate(args):
                e2['arg%d' % j] = ('val', a)
            it = getattr(st, 'iter', None)
            if it:
                e2['itk'] = ('val', it[0])
                e2['itv'] = ('val', it[1])
            g = self.eval_bool(ex, cl.expr, e2, st, ex.old_for(st))
            ex.oblige(st, '%s/%s/oncall.%s.%s@L%s' % (ex.tagstr(cl), ex.short_fn(), pname, cl.label or 'c%d' % cl.ordinal, ex.line(ins)), g,
                      tags=cl.tags, where='%s:%d' % (cl.file, cl.line), kind='oncall')

    def reentry(self, ex, st, pure, site):
        """A re-entrant callback (or a callee that runs one): the re-entry invariant must hold now, everything
        reachable by the callback becomes arbitrary unless it was pure, and the invariant holds again after."""
        con = ex.cur_contract
        invs = con.of('reenters') if con is not None else []
        env = ex.cur_env
        for c in invs:
            if c.extra['arg']:
                e = specparse.parse_expr(c.extra['arg'])
                g = self.eval_bool(ex, e, env, st, st)
                ex.oblige(st, 'C13/%s/reentry.inv@%s' % (ex.short_fn(), site), g, tags=['C13'], kind='discipline')
        if getattr(ex, 'dry', 0):
            return
        self.reentrant_havoc(ex, st, pure)
        for c in invs:
            if c.extra['arg']:
                e = specparse.parse_expr(c.extra['arg'])
                st.pc.append(self.eval_bool(ex, e, env, st, st))

    def callback_policy(self, ex, fv):
        con = ex.cur_contract
        if con is not None:
            for c in con.of('opaque'):
                parts = c.extra['arg'].split()
                if parts and parts[0] == 'pure':
                    return 'pure'
        return 'reentrant'

    def reentrant_havoc(self, ex, st, pure, recv=None):
        """A re-entrant callback may call any exported method of the container (C13).  Its possible effect on the
        state is therefore the union of the frames (`modifies`) of those methods -- each of which is itself checked
        (FRAME obligations).  Unless the callback was pure (ghost flag `pure`)."""
        con = ex.cur_contract
        f = self.prog.funcs.get(con.fn) if con is not None else None
        if recv is not None:
            rv, rtype = recv
        elif f is None or not f.get('hasrecv') or not f['params']:
            return self.full_havoc(ex, st, pure)
        else:
            # the container is the receiver of the method under proof
            rp = f['params'][0]
            rv = ex.cur_env[rp['n']][1]
            rtype = rp['t']
        items = []
        for tgt, c2 in self.sf.contracts.items():
            if c2.fn is None:
                continue
            f2 = self.prog.funcs[c2.fn]
            if not f2.get('hasrecv') or not f2['params'] or f2['params'][0]['t'] != rtype:
                continue
            mname = c2.fn.rsplit('.', 1)[-1]
            if not mname[:1].isupper():
                continue
            for it in self.modifies_items(c2):
                items.append((it, f2['params'][0]['n']))
        seen = set()
        for it, rn in items:
            if it in seen:
                continue
            seen.add(it)
            before_g = dict(st.ghost)
            before_m = {kx: (cx[0], list(cx[1])) for kx, cx in st.mem.items()}
            try:
                self.havoc_item(ex, it, {rn: ('val', rv)}, st, st)
            except EngineError:
                m = re.match(r'^ledger\((\w+)\)$', it.strip())
                done = False
                if m:
                    # ledger of a function-typed parameter: ledgers are per signature
                    for tgt, c2 in self.sf.contracts.items():
                        if c2.fn is None or it not in self.modifies_items(c2):
                            continue
                        for prm in self.prog.funcs[c2.fn]['params']:
                            if prm['n'] == m.group(1):
                                names, pts = self.ledger(ex, st, self.sig_of(ex, prm['t']))
                                for n in names:
                                    st.ghost[n] = ex.fresh('g_' + mangle(n), st.ghost[n].sort())
                                done = True
                if not done:
                    return self.full_havoc(ex, st, pure)
            # guard by purity
            for g, cur in list(st.ghost.items()):
                b = before_g.get(g)
                if b is None and not g.startswith('$'):
                    b = z3.Const('g0_' + mangle(g), cur.sort())     # created just now: its initial value
                if b is not None and not b.eq(cur):
                    st.ghost[g] = z3.If(pure, b, cur)
            for kx, cx in st.mem.items():
                b = before_m.get(kx)
                if b is None:
                    continue
                for j in range(len(cx[1])):
                    pj, vj = cx[1][j]
                    if any(addr_same(pj, q) and w.eq(vj) for (q, w) in b[1]):
                        continue
                    prev = ex.load_leaf_from(b, cx[2], pj)
                    cx[1][j] = (pj, z3.If(pure, prev, vj))

    def full_havoc(self, ex, st, pure):
        for g in list(st.ghost.keys()):
            if g.startswith('$now'):
                continue
            cur = st.ghost[g]
            st.ghost[g] = z3.If(pure, cur, ex.fresh('gcb_' + mangle(g), cur.sort()))
        for key, cell in st.mem.items():
            keep = [(p, v) for (p, v) in cell[1] if p.cid is not None]
            drop = [(p, v) for (p, v) in cell[1] if p.cid is None]
            base = cell[0]
            for (p, v) in drop:
                base = z3.Store(base, p.term(), v)
            nb = ex.fresh('Mcb_' + mangle(key), base.sort())
            cell[0] = z3.If(pure, base, nb)
            cell[1] = keep

    def do_append(self, ex, fr, ins, args, st, k):
        """append(s, elems...) with elems a slice of statically known length: result is a fresh backing
        array holding s's elements followed by the new ones (copy axiom), or in place; both behave the same
        for code that only keeps the result."""
        s, more = args
        r = ex.ts.rep(s.t)
        et = r[1]
        n = z3.simplify(more.x[1].x)
        if not z3.is_bv_value(n):
            raise EngineError('append of a slice of unknown length')
        n = n.as_long()
        base, ln, cp = s.x
        st.nalloc += 1
        nb = PAddr(cid=-st.nalloc)
        newlen = ln.x + n
        g = (newlen >= ln.x)
        st.pc.append(g)   # allocation assumption: slices never reach 2^63 elements
        # copy axiom: for all i < len: new[i] = old[i].  The new backing array is a fresh object: its cells were
        # never constrained before, so stating their contents is sound.
        leaves = self.leaf_paths(ex, et)
        i = z3.Const('ap_i', BV64)
        for (path, lt) in leaves:
            srt = Addr if (lt == '$addr' or ex.ts.rep(lt)[0] == 'addr') else ex.ts.sort(lt)
            arr = ex.mem_array(st, srt)
            src = base.x.ext(i)
            dst = nb.ext(i)
            for s_ in path:
                src = src.ext(s_)
                dst = dst.ext(s_)
            st.pc.append(z3.ForAll([i], z3.Implies(z3.ULT(i, ln.x), z3.Select(arr, dst.term()) == z3.Select(arr, src.term()))))
        for j in range(n):
            v = ex.load(st, et, more.x[0].x.ext(j))
            ex.store(st, nb.ext(ex.selc(ln.x + j)), v)
        newcap = ex.fresh('newcap', BV64)
        st.pc.append(z3.And(newcap >= newlen, newcap < (1 << 62)))   # allocation assumption
        k(st, V(s.t, [V('$addr', nb), V('int', newlen), V('int', newcap)]))

    def leaf_paths(self, ex, t, prefix=()):
        r = ex.ts.rep(t)
        if r[0] == 'struct':
            out = []
            for i, (fn, ft) in enumerate(r[1]):
                out += self.leaf_paths(ex, ft, prefix + (i,))
            return out
        if r[0] == 'array':
            out = []
            for i in range(r[2]):
                out += self.leaf_paths(ex, r[1], prefix + (i,))
            return out
        if r[0] == 'slice':
            return [(prefix + (0,), '$addr'), (prefix + (1,), 'int'), (prefix + (2,), 'int')]
        return [(prefix, t)]

    # ------------------------------------------------------------------------------------------
    # callee side
    # ------------------------------------------------------------------------------------------
    def begin(self, ex, st, con, env):
        now = self.now(ex, st)
        st.pc.append(now >= 0)      # assumption CLOCK-EPOCH: the clock reads a time after 1970

    def clock_read(self, ex, st):
        return self.now(ex, st)

    def calls_callee(self, ex, c, env, st, old, short):
        """`calls f(args) -> (r...)`: on every path f was invoked exactly once (or, with when(cond, ...),
        exactly once if cond and not at all otherwise) with exactly these arguments; binds r... to what that
        invocation returned."""
        e = c.expr
        when = None
        if e[0] == 'call' and e[1] == 'when':
            when = e[2][0]
            e = e[2][1]
        fv = self.eval(ex, ('id', e[1]), env, st, old)
        ft = ex.term(fv)
        evs = [t for t in st.trace if t[0] == 'cb' and t[1].eq(ft)]
        names = c.extra['results']
        sig = self.prog.under(fv.t)[1]
        tag = ex.tagstr(c) if c.tags else 'C05'
        pid = '.'.join(st.pathid)
        cond = self.eval_bool(ex, when, env, st, old) if when is not None else z3.BoolVal(True)
        if len(evs) == 0:
            ex.oblige(st, '%s/%s/calls.%s.count#%s' % (tag, short, e[1], pid), z3.Not(cond), tags=c.tags or ['C05'],
                      where='%s:%d' % (c.file, c.line), kind='calls')
            for n, rt in zip(names, sig.get('results') or []):
                env[n] = ('val', ex.fresh_val(rt, 'nocall', st))
            return
        if len(evs) > 1:
            ex.oblige(st, '%s/%s/calls.%s.count#%s' % (tag, short, e[1], pid), z3.BoolVal(False), tags=c.tags or ['C05'],
                      where='%s:%d' % (c.file, c.line), kind='calls')
            return
        evt = evs[0]
        ex.oblige(st, '%s/%s/calls.%s.count#%s' % (tag, short, e[1], pid), cond, tags=c.tags or ['C05'],
                  where='%s:%d' % (c.file, c.line), kind='calls')
        goals = []
        for a, actual in zip(e[2], evt[2]):
            v = self.eval(ex, a, env, st, old)
            if self.is_lit(v):
                v = self.lit_as(ex, v, actual)
            if self.is_poly(v):
                v = self.poly_as(ex, v, actual)
            goals.append(self.equal(ex, v, actual))
        ex.oblige(st, '%s/%s/calls.%s.args#%s' % (tag, short, e[1], pid), z3.And(*goals) if goals else z3.BoolVal(True),
                  tags=c.tags or ['C05'], where='%s:%d' % (c.file, c.line), kind='calls')
        for n, r in zip(names, evt[3]):
            env[n] = ('val', r)

    def modifies_items(self, con):
        items = []
        for c in con.of('modifies'):
            items += c.extra['items']
        return items

    def frame_check(self, ex, con, env, st, old, short):
        items = self.modifies_items(con)
        if 'allmem' in items and 'allghost' in items:
            return
        pid = '.'.join(st.pathid)
        pure_all = z3.And(*[ev[5] for ev in st.trace if ev[0] == 'cb' and ev[5] is not None] + [z3.BoolVal(True)])
        allowed_mem = []
        allowed_view = []
        allowed_ghost = set()
        for it in items:
            e = specparse.parse_expr(it)
            if e[0] == 'call' and e[1] == 'mem':
                p, t = self.lvalue(ex, e[2][0], env, old)
                allowed_mem.append(p)
            elif e[0] == 'call' and e[1] == 'view':
                allowed_view.append(self.eval(ex, e[2][0], env, old, old))
            elif e[0] == 'call' and e[1] == 'ledger':
                f = self.eval(ex, e[2][0], env, old, old)
                names, pts = self.ledger(ex, st, self.sig_of(ex, f.t))
                allowed_ghost.update(names)
            elif e[0] == 'id':
                allowed_ghost.add(e[1])
            elif e[0] == 'call' and e[1] in self.ghost_decl:
                allowed_ghost.add(e[1])
        if 'allmem' not in items:
            goals = []
            for key, cell in st.mem.items():
                ocell = old.mem.get(key)
                if not cell[0].eq(ocell[0] if ocell else cell[0]):
                    # whole-memory havoc happened (callback / loop); compare on non-fresh addresses
                    a = z3.Const('fr_a', Addr)
                    oa = ex.mem_array(old, cell[2]) if ocell else cell[0]
                    ex_allowed = [a != p.term() for p in allowed_mem]
                    goals.append(z3.ForAll([a], z3.Implies(z3.And(Addr.aid(a) >= 0, *ex_allowed),
                                                           z3.Select(ex.mem_array(st, cell[2]), a) == z3.Select(oa, a))))
                    continue
                for (p, v) in cell[1]:
                    if p.cid is not None and p.cid < 0:
                        continue
                    if any(self.prefix_of(q, p) for q in allowed_mem):
                        continue
                    ov = ex.load_leaf(old, cell[2], p)
                    goals.append(v == ov)
            if goals:
                ex.oblige(st, 'FRAME/%s/frame.mem#%s' % (short, pid), z3.Implies(pure_all, z3.And(*goals)), tags=['FRAME'], kind='frame')
        if 'allghost' not in items:
            goals = []
            # ledgers of the function's own function-typed parameters (user functions it is meant to call)
            f = self.prog.funcs[con.fn]
            for prm in f['params']:
                if ex.ts.rep(prm['t'])[0] == 'fn':
                    names, pts = self.ledger(ex, st, self.sig_of(ex, prm['t']))
                    if self.sig_of(ex, prm['t']) not in self.protected_sigs(ex):
                        allowed_ghost.update(names)
            for g, cur in st.ghost.items():
                if g.startswith('$now') or g.startswith('gomap$'):
                    continue
                o = old.ghost.get(g)
                if o is None:
                    o = z3.Const('g0_' + mangle(g), cur.sort()) if not g.startswith('$') else None
                    if g == '$inv':
                        o = z3.Const('g0_inv', cur.sort())
                if o is None or cur.eq(o):
                    continue
                if g.startswith('view$'):
                    ok = [m for m in allowed_view if self.view_name(*[ex.ts.sort(x) for x in self.map_kv(ex, m.t)]) == g]
                    x = o
                    for m in ok:
                        x = z3.Store(x, ex.term(m), z3.Select(cur, ex.term(m)))
                    goals.append(cur == x)
                elif g in allowed_ghost:
                    continue
                else:
                    goals.append(cur == o)
            if goals:
                ex.oblige(st, 'FRAME/%s/frame.ghost#%s' % (short, pid), z3.Implies(pure_all, z3.And(*goals)), tags=['FRAME'], kind='frame')

    def protected_sigs(self, ex):
        out = set()
        for n in ('EvictedCallback', 'EvictedCallbackOf'):
            try:
                out.add(self.sig_of(ex, self.resolve_type(ex, n)))
            except EngineError:
                pass
        return out

    def prefix_of(self, q, p):
        """q is a (not necessarily leaf) location; p a leaf location inside it?"""
        if (q.cid is not None) != (p.cid is not None):
            return False
        if q.cid is not None:
            if q.cid != p.cid:
                return False
        elif not q.base.eq(p.base):
            return False
        if len(q.path) > len(p.path):
            return False
        return all(sel_same(a, b) for a, b in zip(q.path, p.path))
