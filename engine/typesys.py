"""Go types -> value representations; packed datatypes; the Iface datatype."""
import z3
from sorts import *


class TS:
    def __init__(self, prog):
        self.prog = prog
        self.packed = {}      # type name -> (z3 datatype sort, ctor, [accessors], [field types])
        self.opt = {}         # sort name -> option datatype
        self.iface = None
        self.boxes = {}       # type name -> (ctor, [accessors], recognizer)
        self._build_iface()

    # ---- classification -----------------------------------------------------------------------
    def rep(self, t):
        """Returns a tuple describing the representation of Go type t."""
        u, r = self.prog.under(t)
        k = r['kind']
        if k == 'basic':
            n = r['name']
            info = r['info']
            if info & IS_BOOLEAN:
                return ('bool',)
            if info & IS_INTEGER:
                w = {'int8': 8, 'uint8': 8, 'byte': 8, 'int16': 16, 'uint16': 16, 'int32': 32, 'uint32': 32,
                     'rune': 32}.get(n, 64)
                return ('bv', w, not (info & IS_UNSIGNED))
            if info & IS_STRING:
                return ('str',)
            if info & IS_FLOAT:
                return ('f64',)
            if n == 'unsafe.Pointer' or n == 'Pointer':
                return ('addr',)
            if n == 'untyped nil':
                return ('nil',)
            raise NotImplementedError('basic ' + n)
        if k == 'pointer' or k == 'chan' or k == 'map':
            return ('addr',)
        if k == 'interface':
            if r.get('empty'):
                return ('iface',)
            return ('addr',)
        if k == 'signature':
            return ('fn',)
        if k == 'typeparam':
            return ('tp', r['name'])
        if k == 'struct':
            return ('struct', [(f['name'], f['type']) for f in (r.get('fields') or [])])
        if k == 'array':
            return ('array', r['elem'], r['len'])
        if k == 'slice':
            return ('slice', r['elem'])
        if k == 'tuple':
            return ('tuple', r.get('elems') or [])
        raise NotImplementedError('kind ' + k + ' ' + t)

    def is_signed(self, t):
        r = self.rep(t)
        return r[0] == 'bv' and r[2]

    def sort(self, t):
        """z3 sort for a leaf type, or a packed datatype for structs."""
        r = self.rep(t)
        k = r[0]
        if k == 'bool':
            return BoolS
        if k == 'bv':
            return z3.BitVecSort(r[1])
        if k == 'str':
            return Str
        if k == 'f64':
            return F64
        if k == 'addr':
            return Addr
        if k == 'iface':
            return self.iface
        if k == 'fn':
            return Fn
        if k == 'tp':
            return z3.DeclareSort('TP_' + r[1])
        if k == 'struct':
            return self.pack_sort(t)
        raise NotImplementedError('sort of ' + t)

    def sortkey(self, t):
        return str(self.sort(t))

    # ---- packed structs -------------------------------------------------------------------------
    def _struct_key(self, t):
        u, r = self.prog.under(t)
        # named structs are keyed by their name, anonymous ones by structure
        tt = self.prog.ty(t)
        if tt['kind'] == 'named':
            return t
        return u

    def pack_sort(self, t):
        return self._pack(t)[0]

    def _pack(self, t):
        key = self._struct_key(t)
        if key in self.packed:
            return self.packed[key]
        r = self.rep(t)
        assert r[0] == 'struct', t
        dt = z3.Datatype('S_' + mangle(key))
        fields = []
        for (fn, ft) in r[1]:
            fields.append(('f_%s_%s' % (mangle(key), fn if fn != '_' else 'blank%d' % len(fields)), self.sort(ft)))
        dt.declare('mk_' + mangle(key), *fields)
        dt = dt.create()
        ctor = dt.constructor(0)
        accs = [dt.accessor(0, i) for i in range(len(fields))]
        self.packed[key] = (dt, ctor, accs, [ft for (_, ft) in r[1]])
        return self.packed[key]

    def pack(self, v):
        """V -> z3 term of the sort self.sort(v.t)."""
        r = self.rep(v.t)
        if r[0] == 'struct':
            dt, ctor, accs, fts = self._pack(v.t)
            return ctor(*[self.pack(f) for f in v.x])
        if r[0] == 'addr':
            return v.x.term() if isinstance(v.x, PAddr) else v.x
        if r[0] == 'fn':
            if isinstance(v.x, Clo):
                raise NotImplementedError('packing a closure')
            return v.x
        return v.x

    def unpack(self, t, term):
        r = self.rep(t)
        if r[0] == 'struct':
            dt, ctor, accs, fts = self._pack(t)
            return V(t, [self.unpack(ft, acc(term)) for acc, ft in zip(accs, fts)])
        if r[0] == 'addr':
            return V(t, PAddr(base=term))
        return V(t, term)

    # ---- options -----------------------------------------------------------------------------------
    def opt_sort(self, s):
        key = str(s)
        if key not in self.opt:
            dt = z3.Datatype('Opt_' + mangle(key))
            dt.declare('none_' + mangle(key))
            dt.declare('some_' + mangle(key), ('val_' + mangle(key), s))
            dt = dt.create()
            self.opt[key] = dt
        return self.opt[key]

    def opt_none(self, s):
        return self.opt_sort(s).constructor(0)()

    def opt_some(self, s, x):
        return self.opt_sort(s).constructor(1)(x)

    def opt_is_some(self, s, o):
        return self.opt_sort(s).recognizer(1)(o)

    def opt_val(self, s, o):
        return self.opt_sort(s).accessor(1, 0)(o)

    # ---- interface{} ---------------------------------------------------------------------------------
    def _build_iface(self):
        boxed = set()
        for f in self.prog.funcs.values():
            for b in f['blocks']:
                for i in b['instrs']:
                    if i['op'] == 'MakeInterface':
                        if self.rep(i['type'])[0] == 'iface':
                            boxed.add(i['x']['t'])
                    elif i['op'] == 'TypeAssert':
                        if self.rep(i['x']['t'])[0] == 'iface' and self.prog.kind(i['asserted']) != 'interface':
                            boxed.add(i['asserted'])
        boxed = sorted(boxed)
        dt = z3.Datatype('Iface')
        dt.declare('inil')
        dt.declare('iuser', ('uval', UVal))
        order = []
        for t in boxed:
            r = self.rep(t)
            m = mangle(t)
            if r[0] == 'struct':
                fields = []
                for (fn, ft) in r[1]:
                    fr = self.rep(ft)
                    if fr[0] == 'iface':
                        fs = dt
                    elif fr[0] in ('struct', 'array', 'slice'):
                        fields = None
                        break
                    else:
                        fs = self.sort(ft)
                    fields.append(('bx_%s_%s' % (m, fn), fs))
                if fields is None:
                    continue
                dt.declare('box_' + m, *fields)
            elif r[0] in ('array', 'slice', 'tuple', 'nil'):
                continue
            elif r[0] == 'iface':
                continue
            else:
                dt.declare('box_' + m, ('bx_' + m, self.sort(t)))
            order.append(t)
        dt = dt.create()
        self.iface = dt
        self.INIL = dt.constructor(0)()
        for n, t in enumerate(order):
            ci = n + 2
            ctor = dt.constructor(ci)
            accs = [dt.accessor(ci, j) for j in range(ctor.arity())]
            self.boxes[t] = (ctor, accs, dt.recognizer(ci))

    def box(self, v):
        if v.t not in self.boxes:
            raise NotImplementedError('boxing ' + v.t)
        ctor, accs, rec = self.boxes[v.t]
        r = self.rep(v.t)
        if r[0] == 'struct':
            return ctor(*[self.pack(f) for f in v.x])
        return ctor(self.pack(v))

    def is_box(self, t, term):
        return self.boxes[t][2](term)

    def unbox(self, t, term):
        ctor, accs, rec = self.boxes[t]
        r = self.rep(t)
        if r[0] == 'struct':
            return V(t, [self.unpack(ft, acc(term)) for acc, (fn, ft) in zip(accs, r[1])])
        return self.unpack(t, accs[0](term))
