"""IR: loads the ssajson dump of /repo's current working tree.

Nothing here is cached between runs: every check invokes bin/ssajson on /repo and reads the JSON.
"""
import json
import os
import subprocess

ROOT = os.path.dirname(os.path.dirname(os.path.abspath(__file__)))
REPO = os.environ.get('VERIF_REPO', '/repo')
PKG = 'github.com/fufuok/cache'
XPKG = 'github.com/fufuok/cache/internal/xsync'


class Program:
    def __init__(self, data):
        self.data = data
        self.types = data['types']
        self.funcs = data['functions']
        self.files = data['files']
        self.globals = data['globals']
        self.types.setdefault('$addr', {'kind': 'basic', 'name': 'unsafe.Pointer', 'info': 0})
        for f in self.funcs.values():
            f['blocks'] = f.get('blocks') or []
            f['params'] = f.get('params') or []
            f['freevars'] = f.get('freevars') or []
            f['typeparams'] = f.get('typeparams') or []
            for b in f['blocks']:
                b['preds'] = b.get('preds') or []
                b['succs'] = b.get('succs') or []
                b['instrs'] = b.get('instrs') or []

    # ---- types -------------------------------------------------------------------------
    def ty(self, name):
        t = self.types.get(name)
        if t is None:
            raise KeyError('unknown type ' + name)
        return t

    def under(self, name):
        """Underlying type record (resolving named and alias)."""
        seen = 0
        while True:
            t = self.ty(name)
            k = t['kind']
            if k == 'named':
                name = t['underlying']
            elif k == 'alias':
                if t['actual'] == name:
                    return 'interface{}', self.ty('interface{}')
                name = t['actual']
            else:
                return name, t
            seen += 1
            if seen > 20:
                raise RuntimeError('type loop ' + name)

    def kind(self, name):
        return self.under(name)[1]['kind']

    def find_func(self, suffix, pkg=None):
        """Find a function by a suffix such as '(*xsyncMap).Get' or 'configDefault'."""
        cands = []
        for n in self.funcs:
            if pkg and self.funcs[n].get('pkg') != pkg:
                continue
            short = n.replace(PKG + '/internal/xsync.', '').replace(PKG + '.', '')
            if short == suffix:
                cands.append(n)
        if len(cands) == 1:
            return cands[0]
        if not cands:
            return None
        raise RuntimeError('ambiguous function %s: %s' % (suffix, cands))

    def short(self, n):
        return n.replace(PKG + '/internal/xsync.', 'xsync.').replace(PKG + '.', '')


def load_program(repo=None, tags='verif'):
    repo = repo or REPO
    exe = os.path.join(ROOT, 'bin', 'ssajson')
    if not os.path.exists(exe):
        raise RuntimeError('bin/ssajson missing: run ./setup.sh')
    env = dict(os.environ)
    env.update(GOFLAGS='-mod=mod', GOPROXY='off', GOSUMDB='off', GOTOOLCHAIN='local')
    p = subprocess.run([exe, '-dir', repo, '-tags', tags, '.', './internal/xsync'],
                       capture_output=True, env=env)
    if p.returncode != 0:
        raise RuntimeError('ssajson failed (does /repo compile?):\n' + p.stderr.decode()[-4000:])
    return Program(json.loads(p.stdout))


# ---- CFG helpers -------------------------------------------------------------------------

def loop_heads(f):
    """Blocks that are targets of back edges (DFS based), with the set of blocks of each natural loop."""
    blocks = f['blocks']
    if not blocks:
        return {}
    color = {}
    back = []

    def dfs(b):
        stack = [(b, iter(blocks[b]['succs']))]
        color[b] = 1
        while stack:
            n, it = stack[-1]
            try:
                s = next(it)
                if color.get(s, 0) == 0:
                    color[s] = 1
                    stack.append((s, iter(blocks[s]['succs'])))
                elif color[s] == 1:
                    back.append((n, s))
            except StopIteration:
                color[n] = 2
                stack.pop()

    dfs(0)
    heads = {}
    for (n, h) in back:
        body = heads.setdefault(h, set([h]))
        # natural loop: nodes that reach n without passing h
        work = [n]
        while work:
            x = work.pop()
            if x in body:
                continue
            body.add(x)
            for p in blocks[x]['preds']:
                work.append(p)
    return heads


def local_names_seq(f):
    """Source names of the locals of a function in order of first appearance in the SSA (parameters first).  The
    sequence is invariant under a pure renaming of locals; contracts name locals, so a renaming is recognised by
    comparing this sequence with the one recorded when the baseline was written (check.py / symex.local_env)."""
    seq = []
    seen = set()
    for p_ in f.get('params') or []:
        if p_['n'] not in seen:
            seen.add(p_['n'])
            seq.append(p_['n'])
    for b in f.get('blocks') or []:
        for x in b.get('instrs') or []:
            if x.get('op') == 'DebugRef' and x.get('ident') and x['ident'] not in seen:
                seen.add(x['ident'])
                seq.append(x['ident'])
    return seq
