"""Sorts, typed symbolic values and the address model.

Go type -> logic (see DESIGN.md section 2.2):
  bool -> Bool; integers -> bit-vectors of the exact width (machine arithmetic, never Int);
  string -> uninterpreted Str; type parameter X -> uninterpreted TP_X; pointer/unsafe.Pointer/chan/map and
  named non-empty interfaces -> Addr; interface{} -> datatype Iface with one constructor per boxed
  concrete type; func -> Fn (opaque) or a known closure (python object); float64 -> uninterpreted F64;
  structs/arrays/slices -> flattened python lists of leaves (packed into generated datatypes only when
  they are stored inside spec-level arrays or interfaces).
Addresses: Addr = mkaddr(id: Int, path: Path), Path = list of 64-bit selectors (field numbers,
  indices).  nil = mkaddr(0, pnil).  Objects allocated by the function under proof get negative concrete
  ids; everything that exists before has id >= 1.
"""
import re
import z3

BV64 = z3.BitVecSort(64)
BV32 = z3.BitVecSort(32)
BV16 = z3.BitVecSort(16)
BV8 = z3.BitVecSort(8)
BoolS = z3.BoolSort()
IntS = z3.IntSort()

Path = z3.Datatype('Path')
Path.declare('pnil')
Path.declare('pcons', ('phd', BV64), ('ptl', Path))
Path = Path.create()
Addr = z3.Datatype('Addr')
Addr.declare('mkaddr', ('aid', IntS), ('apath', Path))
Addr = Addr.create()
NIL = Addr.mkaddr(z3.IntVal(0), Path.pnil)

Str = z3.DeclareSort('Str')
Fn = z3.DeclareSort('Fn')
F64 = z3.DeclareSort('F64')
UVal = z3.DeclareSort('UVal')
STR_EMPTY = z3.Const('str_empty', Str)
FN_NIL = z3.Const('fn_nil', Fn)

IS_UNSIGNED = 4
IS_INTEGER = 2
IS_STRING = 32
IS_FLOAT = 8
IS_BOOLEAN = 1


def mangle(s):
    return re.sub(r'[^A-Za-z0-9_]', '_', s.replace('github.com/fufuok/cache/internal/xsync.', 'x_')
                  .replace('github.com/fufuok/cache.', 'c_'))


class Clo:
    """A known closure value."""
    __slots__ = ('fn', 'bindings')

    def __init__(self, fn, bindings):
        self.fn = fn
        self.bindings = bindings

    def __repr__(self):
        return 'Clo(%s)' % self.fn


class PAddr:
    """Pointer value: (base object, selector path). base is either a concrete fresh id (cid < 0) or an
    Addr-sorted z3 term (then `lo` is a lower bound on its id known at creation: objects with a smaller
    concrete id were allocated later and are therefore distinct)."""
    __slots__ = ('cid', 'base', 'path', 'lo', '_term')

    def __init__(self, cid=None, base=None, path=(), lo=0):
        self.cid = cid
        self.base = base
        self.path = tuple(path)
        self.lo = lo
        self._term = None

    def ext(self, sel):
        return PAddr(self.cid, self.base, self.path + (sel,), self.lo)

    def term(self):
        if self._term is None:
            if self.cid is not None:
                ident = z3.IntVal(self.cid)
                p = Path.pnil
            else:
                if not self.path:
                    self._term = self.base
                    return self._term
                ident = Addr.aid(self.base)
                p = Addr.apath(self.base)
            for s in self.path:
                p = Path.pcons(s if z3.is_expr(s) else z3.BitVecVal(s, 64), p)
            self._term = Addr.mkaddr(ident, p)
        return self._term

    def is_fresh(self):
        return self.cid is not None

    def __repr__(self):
        return 'PAddr(%s,%s)' % (self.cid if self.cid is not None else self.base, list(self.path))


def sel_same(a, b):
    if z3.is_expr(a) or z3.is_expr(b):
        if z3.is_expr(a) and z3.is_expr(b):
            return a.eq(b)
        x, y = (a, b) if z3.is_expr(a) else (b, a)
        return z3.is_bv_value(x) and x.as_long() == y
    return a == b


def sel_const(a):
    if z3.is_expr(a):
        if z3.is_bv_value(a):
            return a.as_long()
        return None
    return a


def addr_same(p, q):
    if p.cid is not None or q.cid is not None:
        if p.cid != q.cid:
            return False
    else:
        if not p.base.eq(q.base):
            return False
    if len(p.path) != len(q.path):
        return False
    return all(sel_same(a, b) for a, b in zip(p.path, q.path))


def addr_distinct(p, q):
    """Cheap syntactic distinctness (sound, incomplete)."""
    if p.cid is not None and q.cid is not None:
        if p.cid != q.cid:
            return True
    elif p.cid is not None or q.cid is not None:
        f, o = (p, q) if p.cid is not None else (q, p)
        if f.cid < o.lo or f.cid >= 10 ** 9:
            return True
        return False
    else:
        if not p.base.eq(q.base):
            return False
    # same base object
    if len(p.path) != len(q.path):
        # paths of different length from the same base denote different leaves
        return True
    for a, b in zip(p.path, q.path):
        ca, cb = sel_const(a), sel_const(b)
        if ca is not None and cb is not None and ca != cb:
            return True
    return False


class V:
    """Typed symbolic value. t: Go type name (key of the type table); x: z3 term, PAddr, Clo, list of V
    (struct / array / slice header), or tuple of V (multiple results)."""
    __slots__ = ('t', 'x')

    def __init__(self, t, x):
        self.t = t
        self.x = x

    def __repr__(self):
        return 'V(%s,%s)' % (self.t, self.x)
