"""Second-stage discharge: skolemise the goal and instantiate quantified hypotheses at the ground terms of the
query (the engine's own E-matching).  Only instances of assumed formulas are added, so `unsat` remains sound; the
quantified hypotheses are kept as well."""
import itertools
import z3

MAX_INST = 4000


def strip_quant(q):
    """ForAll -> (consts, body) with fresh constants."""
    n = q.num_vars()
    cs = [z3.FreshConst(q.var_sort(i), 'sk_' + q.var_name(i)) for i in range(n)]
    body = z3.substitute_vars(q.body(), *reversed(cs))
    return cs, body


def flatten(goal, ante=None):
    """-> list of (antecedents, atomic goal): not(goal) is unsatisfiable iff every (A => g) is valid, with the goal's
    universally quantified variables replaced by fresh constants."""
    ante = list(ante or [])
    if z3.is_quantifier(goal) and goal.is_forall():
        cs, body = strip_quant(goal)
        return flatten(body, ante)
    if z3.is_implies(goal):
        return flatten(goal.arg(1), ante + [goal.arg(0)])
    if z3.is_and(goal):
        out = []
        for c in goal.children():
            out.extend(flatten(c, ante))
        return out
    return [(ante, goal)]


_INDEXTERM = set()
_BASEPTR = set()
_GHOSTROOT = {}


def is_ghost_array(a):
    """Is array term `a` (modulo Store / If / nested Select) rooted at a ghost-state constant (names g...)?"""
    i = a.get_id()
    if i in _GHOSTROOT:
        return _GHOSTROOT[i]
    r = False
    x = a
    for _ in range(60):
        if z3.is_const(x) and x.decl().kind() == z3.Z3_OP_UNINTERPRETED:
            n = x.decl().name()
            r = n.startswith('g') and not n.startswith('glob')
            break
        if not z3.is_app(x) or x.num_args() == 0:
            break
        k = x.decl().kind()
        if k == z3.Z3_OP_STORE or k == z3.Z3_OP_SELECT:
            x = x.arg(0)
        elif k == z3.Z3_OP_ITE:
            x = x.arg(1)
        else:
            break
    _GHOSTROOT[i] = r
    return r


def ground_terms(terms):
    """sort name -> list of ground (closed) terms occurring in `terms`, outside quantifiers."""
    by_sort = {}
    seen = set()
    stack = list(terms)
    while stack:
        t = stack.pop()
        i = t.get_id()
        if i in seen:
            continue
        seen.add(i)
        if z3.is_quantifier(t):
            continue
        if z3.is_var(t):
            continue
        ch = t.children()
        stack.extend(ch)
        if z3.is_app(t):
            dk = t.decl().kind()
            nm = t.decl().name()
            if nm == 'pcons' and ch:
                _INDEXTERM.add(ch[0].get_id())
            elif dk == z3.Z3_OP_SELECT and len(ch) == 2:
                _INDEXTERM.add(ch[1].get_id())
                if is_ghost_array(ch[0]):
                    _BASEPTR.add(ch[1].get_id())
            elif nm in ('aid', 'apath') and ch:
                _BASEPTR.add(ch[0].get_id())
        s = t.sort()
        if z3.is_bool(t) or z3.is_array(t):
            continue
        by_sort.setdefault(str(s), []).append(t)
    return by_sort


def has_var(t, cache):
    i = t.get_id()
    if i in cache:
        return cache[i]
    if z3.is_var(t):
        cache[i] = True
        return True
    if z3.is_quantifier(t):
        cache[i] = True
        return True
    r = any(has_var(c, cache) for c in t.children())
    cache[i] = r
    return r


def quantified_hyps(assumptions):
    """Yield (prefix_conditions, quantifier) for universally quantified hypotheses (top level, under And / Implies)."""
    out = []

    def walk(f, conds):
        if z3.is_quantifier(f) and f.is_forall():
            out.append((conds, f))
        elif z3.is_and(f):
            for c in f.children():
                walk(c, conds)
        elif z3.is_implies(f):
            walk(f.arg(1), conds + [f.arg(0)])
    for a in assumptions:
        walk(a, [])
    return out


_SIZE = {}
_HASSK = {}


def tsize(t):
    i = t.get_id()
    if i in _SIZE:
        return _SIZE[i]
    n = 1
    for c in t.children():
        n += tsize(c)
        if n > 400:
            break
    _SIZE[i] = n
    return n


def has_skolem(t):
    i = t.get_id()
    if i in _HASSK:
        return _HASSK[i]
    if z3.is_const(t) and t.decl().kind() == z3.Z3_OP_UNINTERPRETED:
        r = t.decl().name().startswith('sk_')
    else:
        r = any(has_skolem(c) for c in t.children())
    _HASSK[i] = r
    return r


def candidate_filter(sort_name, terms, maxrank=9):
    def rank(t):
        n = tsize(t)
        if sort_name == 'Addr':
            isc = z3.is_const(t) and t.decl().kind() == z3.Z3_OP_UNINTERPRETED
            if isc and t.decl().name().startswith('sk_'):
                return (0, n, '')
            if t.get_id() in _BASEPTR or isc:
                return (0 if has_skolem(t) else 1, n, '')
            return (5, n, '')
        if z3.is_const(t) and t.decl().kind() == z3.Z3_OP_UNINTERPRETED:
            if t.decl().name().startswith('sk_'):
                return (0, n, t.decl().name())
            return (1, n, t.decl().name())
        if z3.is_bv_value(t) or z3.is_int_value(t):
            return (4, n, '')
        if n <= 6 and has_skolem(t):
            return (0, n, '')
        if n <= 60 and t.get_id() in _INDEXTERM:
            return (1, n, '')
        if z3.is_app(t) and t.decl().kind() == z3.Z3_OP_SELECT and is_ghost_array(t.arg(0)) and n <= 40:
            return (1, n, '')
        return (2 if n < 12 else 3, n, '')
    uniq = []
    seen = set()
    for t in terms:
        k = t.get_id()
        if k in seen:
            continue
        seen.add(k)
        uniq.append(t)
    uniq = [t for t in uniq if rank(t)[0] <= min(maxrank, 4)]
    uniq.sort(key=lambda t: rank(t) + (t.get_id(),))
    return uniq[:16]


def instantiate(assumptions, goal_terms, rounds=2, maxrank=9):
    """Instances of the universally quantified hypotheses at ground terms of the query.  Round 2 also uses the ground
    index terms that round 1 created (e.g. `j - n0`)."""
    _SIZE.clear()
    _HASSK.clear()
    _INDEXTERM.clear()
    _BASEPTR.clear()
    _GHOSTROOT.clear()
    hyps = quantified_hyps(assumptions)
    base_terms = list(goal_terms) + [a for a in assumptions if not z3.is_quantifier(a)]
    inst = []
    seen_inst = set()
    cache = {}
    extra_terms = []
    for rnd in range(rounds):
        gts = ground_terms(base_terms + extra_terms)
        new_inst = []
        for conds, q in hyps:
            n = q.num_vars()
            cands = []
            ok = True
            for i in range(n):
                sname = str(q.var_sort(i))
                c = [t for t in gts.get(sname, []) if not has_var(t, cache)]
                c = candidate_filter(sname, c, maxrank)
                if not c:
                    ok = False
                    break
                cands.append(c)
            if not ok:
                continue
            total = 1
            for c in cands:
                total *= len(c)
            if total > 400:
                cands = [c[:8] for c in cands]
            for combo in itertools.product(*cands):
                key = (q.get_id(),) + tuple(t.get_id() for t in combo)
                if key in seen_inst:
                    continue
                seen_inst.add(key)
                body = z3.substitute_vars(q.body(), *reversed(combo))
                f = body
                for cnd in reversed(conds):
                    f = z3.Implies(cnd, f)
                new_inst.append(f)
                if len(inst) + len(new_inst) > MAX_INST:
                    return inst + new_inst
        inst += new_inst
        if rnd == 0:
            # ground index terms created by the instances: small arithmetic terms over skolems
            sub = ground_terms(new_inst)
            for sname, ts in sub.items():
                for t in ts:
                    if not z3.is_const(t) and tsize(t) <= 6 and has_skolem(t):
                        extra_terms.append(t)
                    elif sname == 'Addr' and t.get_id() in _BASEPTR and tsize(t) <= 40:
                        extra_terms.append(t)
                    elif z3.is_app(t) and t.decl().kind() == z3.Z3_OP_SELECT and is_ghost_array(t.arg(0)) and tsize(t) <= 40:
                        extra_terms.append(t)      # witness terms such as sloti[t][k]
    return inst


def drop_quantified(assumptions):
    """Remove universally quantified hypotheses (weakening: sound for proving)."""
    out = []

    def strip(f):
        if z3.is_quantifier(f):
            return None
        if z3.is_and(f):
            cs = [strip(c) for c in f.children()]
            cs = [c for c in cs if c is not None]
            return z3.And(*cs) if cs else None
        if z3.is_implies(f):
            b = strip(f.arg(1))
            if b is None:
                return None
            return z3.Implies(f.arg(0), b)
        if contains_quant(f):
            return None
        return f
    for a in assumptions:
        x = strip(a)
        if x is not None:
            out.append(x)
    return out


def contains_quant(t):
    seen = set()
    stack = [t]
    while stack:
        x = stack.pop()
        i = x.get_id()
        if i in seen:
            continue
        seen.add(i)
        if z3.is_quantifier(x):
            return True
        stack.extend(x.children())
    return False
