"""Symbolic execution of go/ssa (as dumped by ssajson) into verification conditions.

One Exec per (function under contract, mode).  Paths are enumerated depth first; every obligation is a
separate SMT query `assumptions /\\ path condition /\\ not goal`.
"""
import sys
import z3
from sorts import *

PTYPE = z3.Function('ptype', Addr, z3.IntSort())
from typesys import TS
import ir as IR

sys.setrecursionlimit(100000)


class EngineError(Exception):
    """The machinery (not the code under proof) is broken or met something outside its subset."""


class Obligation:
    __slots__ = ('name', 'tags', 'assumptions', 'goal', 'where', 'kind', 'fn', 'extra')

    def __init__(self, name, tags, assumptions, goal, where='', kind='post', fn='', extra=None):
        self.name = name
        self.tags = tags
        self.assumptions = assumptions
        self.goal = goal
        self.where = where
        self.kind = kind
        self.fn = fn
        self.extra = extra or {}


class State:
    def __init__(self):
        self.mem = {}       # sortkey -> [base array term, [(PAddr, term)], sort]
        self.ghost = {}     # name -> z3 term
        self.gtype = {}     # name -> type descriptor
        self.pc = []
        self.nalloc = 0
        self.trace = []     # events
        self.counters = {}
        self.notnil = []    # z3 terms known non-nil (syntactic cache)
        self.pathid = []    # branch decisions (for naming)
        self.lets = {}      # spec-level bindings

    def copy(self):
        s = State()
        s.mem = {k: [v[0], list(v[1]), v[2]] for k, v in self.mem.items()}
        s.ghost = dict(self.ghost)
        s.gtype = self.gtype
        s.pc = list(self.pc)
        s.nalloc = self.nalloc
        s.trace = list(self.trace)
        s.counters = dict(self.counters)
        s.notnil = list(self.notnil)
        s.pathid = list(self.pathid)
        s.lets = dict(self.lets)
        s.locked = getattr(self, 'locked', 0)
        s.iter = getattr(self, 'iter', None)
        s.ptr_lo = dict(getattr(self, 'ptr_lo', None) or {})
        s.env_epoch = getattr(self, 'env_epoch', 0)
        s.escaped = set(getattr(self, 'escaped', ()) or ())
        s.ptyped = set(getattr(self, 'ptyped', ()) or ())
        s.arrdefs = set(getattr(self, 'arrdefs', None) or ())
        s.loop_mark = getattr(self, 'loop_mark', 0)
        s.loop_heads = dict(getattr(self, 'loop_heads', None) or {})
        s.held = getattr(self, 'held', ())
        s.actions = getattr(self, 'actions', [])
        s.pending_action = getattr(self, 'pending_action', None)
        s.lk_old = getattr(self, 'lk_old', None)
        s.lk_post = getattr(self, 'lk_post', None)
        return s


class Frame:
    _n = 0

    def __init__(self, f):
        Frame._n += 1
        self.id = Frame._n
        self.f = f
        self.regs = {}
        self.names = {}     # source identifier -> ('val', V) | ('addr', PAddr, type)
        self.defers = []
        self.heads = IR.loop_heads(f)
        self.havocked = {}  # loop head -> True once the invariant was assumed on this path
        self.depth = 0

    def fork(self):
        fr = Frame.__new__(Frame)
        fr.id = self.id
        fr.f = self.f
        fr.regs = dict(self.regs)
        fr.names = dict(self.names)
        fr.defers = list(self.defers)
        fr.heads = self.heads
        fr.havocked = dict(self.havocked)
        fr.depth = self.depth
        if hasattr(self, 'variant'):
            fr.variant = dict(self.variant)
        if hasattr(self, 'dry'):
            fr.dry = self.dry
        if hasattr(self, 'addrinfo'):
            fr.addrinfo = dict(self.addrinfo)
        if hasattr(self, 'valinfo'):
            fr.valinfo = dict(self.valinfo)
        return fr


class Stop(Exception):
    pass


class Exec:
    def __init__(self, prog, spec, ts=None, mode='seq', options=None):
        self.prog = prog
        self.spec = spec          # spec.Spec
        self.ts = ts or TS(prog)
        self.mode = mode
        self.opt = options or {}
        self.obls = []
        self.nfresh = 0
        self.paths = 0
        self.covers = []          # (name, assumptions) reachability checks
        self.cur_fn = ''
        self.cur_contract = None
        self.max_inline_depth = 12
        self.cur_env = {}
        self.log = []

    # ------------------------------------------------------------------------------------------
    # fresh symbols and values
    # ------------------------------------------------------------------------------------------
    def fresh(self, prefix, sort):
        self.nfresh += 1
        return z3.Const('%s!%d' % (prefix, self.nfresh), sort)

    def fresh_val(self, t, prefix, st):
        r = self.ts.rep(t)
        k = r[0]
        if k == 'struct':
            return V(t, [self.fresh_val(ft, prefix + '.' + fn, st) for (fn, ft) in r[1]])
        if k == 'array':
            return V(t, [self.fresh_val(r[1], '%s.%d' % (prefix, i), st) for i in range(r[2])])
        if k == 'slice':
            b = self.fresh_ptr(prefix + '.base', st)
            ln = self.fresh(prefix + '.len', BV64)
            cp = self.fresh(prefix + '.cap', BV64)
            st.pc.append(z3.And((ln >= 0), (ln <= cp), cp < (1 << 62), z3.Implies(ln > 0, Addr.aid(b.term()) != 0)))
            return V(t, [V('$addr', b), V('int', ln), V('int', cp)])
        if k == 'addr':
            return V(t, self.fresh_ptr(prefix, st))
        if k == 'tuple':
            return tuple(self.fresh_val(et, '%s.%d' % (prefix, i), st) for i, et in enumerate(r[1]))
        return V(t, self.fresh(prefix, self.ts.sort(t)))

    def fresh_ptr(self, prefix, st):
        a = self.fresh(prefix, Addr)
        return self.old_ptr(a, st)

    def old_ptr(self, term, st):
        """Wrap an Addr term that denotes a pointer existing now (not allocated later by us)."""
        lo = -st.nalloc
        st.pc.append(z3.And(Addr.aid(term) >= lo, Addr.aid(term) < self.GLOBAL_BASE, z3.Implies(Addr.aid(term) == 0, term == NIL)))
        return PAddr(base=term, lo=lo)

    # ---- static types of addresses (Go's type safety) ----------------------------------------------------------
    # ptype(a) = code of the Go type of the variable that address a denotes.  Facts are added where the program itself
    # forms a typed address (field / element selection from a typed base, allocation, conversion from unsafe.Pointer);
    # quantifiers of the specification over pointers of type *T range over the addresses with ptype = T.  This is the
    # language's memory safety, plus the assumption that every unsafe.Pointer -> *T conversion in the table layer
    # converts back a pointer that was a *T (DESIGN.md assumption register).  Only addresses inside the structs of
    # package xsync are typed (the table layer is where distinct structures share one memory sort).
    _TYPE_CODES = {}

    def type_code(self, tname):
        tc = Exec._TYPE_CODES
        if tname not in tc:
            tc[tname] = len(tc) + 1
        return tc[tname]

    def typed_struct(self, tname):
        if not isinstance(tname, str):
            return False
        try:
            nm = self.prog.ty(tname).get('name') or tname
        except Exception:
            nm = tname
        return 'internal/xsync.' in str(nm) or 'internal/xsync.' in tname

    def ptype_fact(self, term, tname, depth=0):
        """term denotes a variable of type tname; a struct variable's fields are variables of their types (nested
        structs followed, arrays and pointers not)."""
        facts = [PTYPE(term) == z3.IntVal(self.type_code(self.canon_type(tname)))]
        try:
            r = self.ts.rep(tname)
            if r[0] == 'struct' and depth < 4:
                for i, (fn, ft) in enumerate(r[1]):
                    sub = Addr.mkaddr(Addr.aid(term), Path.pcons(z3.BitVecVal(i, 64), Addr.apath(term)))
                    if self.ts.rep(ft)[0] == 'struct':
                        facts.append(self.ptype_fact(sub, ft, depth + 1))
                    else:
                        facts.append(PTYPE(sub) == z3.IntVal(self.type_code(self.canon_type(ft))))
        except Exception:
            pass
        return z3.And(*facts) if len(facts) > 1 else facts[0]

    def canon_type(self, tname):
        try:
            ty = self.prog.ty(tname)
            nm = ty.get('name')
            if nm:
                return str(nm)
        except Exception:
            pass
        return str(tname)

    def assume_ptype(self, st, p, tname, maybe_nil=False):
        if getattr(self, 'no_ptype', False):
            return
        try:
            term = p.term() if isinstance(p, PAddr) else p
            key = (term.get_id(), self.canon_type(tname))
            seen = getattr(st, 'ptyped', None)
            if seen is None:
                seen = st.ptyped = set()
            if key in seen:
                return
            seen.add(key)
            f = self.ptype_fact(term, tname)
            st.pc.append(z3.Or(term == NIL, f) if maybe_nil else f)
        except Exception:
            pass

    def zero(self, t):
        r = self.ts.rep(t)
        k = r[0]
        if k == 'bool':
            return V(t, z3.BoolVal(False))
        if k == 'bv':
            return V(t, z3.BitVecVal(0, r[1]))
        if k == 'str':
            return V(t, STR_EMPTY)
        if k == 'f64':
            return V(t, z3.Const('f64_zero', F64))
        if k == 'addr':
            return V(t, PAddr(base=NIL, lo=0))
        if k == 'iface':
            return V(t, self.ts.INIL)
        if k == 'fn':
            return V(t, FN_NIL)
        if k == 'tp':
            return V(t, z3.Const('zero_TP_' + r[1], self.ts.sort(t)))
        if k == 'struct':
            return V(t, [self.zero(ft) for (_, ft) in r[1]])
        if k == 'array':
            return V(t, [self.zero(r[1]) for _ in range(r[2])])
        if k == 'slice':
            return V(t, [V('$addr', PAddr(base=NIL, lo=0)), V('int', z3.BitVecVal(0, 64)), V('int', z3.BitVecVal(0, 64))])
        raise EngineError('zero of ' + t)

    # ------------------------------------------------------------------------------------------
    # memory
    # ------------------------------------------------------------------------------------------
    def _memcell(self, st, sort):
        key = str(sort)
        if key not in st.mem:
            st.mem[key] = [z3.Const('M0_' + mangle(key), z3.ArraySort(Addr, sort)), [], sort]
        return st.mem[key]

    def mem_array(self, st, sort):
        """Materialise the current memory of a sort as one z3 array term."""
        cell = self._memcell(st, sort)
        a = cell[0]
        for (p, v) in cell[1]:
            a = z3.Store(a, p.term(), v)
        return a

    def collapse_mem(self, st):
        esc = set(getattr(st, 'escaped', ()) or ())
        for key, cell in st.mem.items():
            if cell[1]:
                keep = [(p, v) for (p, v) in cell[1] if p.cid is not None and p.cid < 0 and p.cid not in esc]
                cell[0] = self.mem_array(st, cell[2])
                cell[1] = keep

    def havoc_mem(self, st, sorts=None, tag='H'):
        """All memory becomes arbitrary -- except the objects allocated by this path whose address never escaped (was
        never stored in memory or passed to other code): nobody else can reach them."""
        esc = set(getattr(st, 'escaped', ()) or ())
        for key in list(st.mem.keys()):
            cell = st.mem[key]
            if sorts is not None and key not in sorts:
                continue
            keep = [(p, v) for (p, v) in cell[1] if p.cid is not None and p.cid < 0 and p.cid not in esc]
            cell[0] = self.fresh('M%s_%s' % (tag, mangle(key)), z3.ArraySort(Addr, cell[2]))
            cell[1] = keep

    def load_leaf(self, st, sort, p):
        if p.cid is not None and p.cid >= 10 ** 9:
            # package-level variable that no function other than init stores to: its value survives every havoc
            cc = getattr(self, 'const_cells', {}).get((str(sort), p.cid))
            if cc:
                res = None
                for (q, v) in cc:
                    if addr_same(p, q):
                        return v
                cands = [(q, v) for (q, v) in cc if not addr_distinct(p, q)]
                if cands:
                    res = z3.Select(self._memcell(st, sort)[0], p.term())
                    for (q, v) in cands:
                        res = z3.If(p.term() == q.term(), v, res)
                    return res
        cell = self._memcell(st, sort)
        ws = cell[1]
        i = len(ws) - 1
        while i >= 0:
            q, v = ws[i]
            if addr_same(p, q):
                return v
            if addr_distinct(p, q):
                i -= 1
                continue
            break
        if i < 0:
            res = z3.Select(cell[0], p.term())
        else:
            a = cell[0]
            for (q, v) in ws[:i + 1]:
                a = z3.Store(a, q.term(), v)
            res = z3.Select(a, p.term())
        return res

    def load_leaf_from(self, snap, sort, p):
        """Load from a saved (base, writes) snapshot."""
        base, ws = snap
        a = base
        i = len(ws) - 1
        while i >= 0:
            q, v = ws[i]
            if addr_same(p, q):
                return v
            if addr_distinct(p, q):
                i -= 1
                continue
            break
        if i < 0:
            return z3.Select(base, p.term())
        for (q, v) in ws[:i + 1]:
            a = z3.Store(a, q.term(), v)
        return z3.Select(a, p.term())

    def note_escape(self, st, term):
        """A pointer to an object allocated by this path was stored in memory or handed to other code."""
        try:
            if z3.is_app(term) and term.decl().eq(Addr.mkaddr) and z3.is_int_value(term.arg(0)):
                cid = term.arg(0).as_long()
                if cid < 0:
                    esc = set(getattr(st, 'escaped', ()) or ())
                    esc.add(cid)
                    st.escaped = esc
        except Exception:
            pass

    def store_leaf(self, st, sort, p, term):
        if sort == Addr:
            self.note_escape(st, term)
        cell = self._memcell(st, sort)
        ws = cell[1]
        # a later write to the same address shadows an earlier one
        for i in range(len(ws) - 1, -1, -1):
            if addr_same(ws[i][0], p):
                del ws[i]
                break
        ws.append((p, term))

    def leaf_sort(self, t):
        return self.ts.sort(t)

    def load(self, st, t, p):
        r = self.ts.rep(t)
        k = r[0]
        if k == 'struct':
            return V(t, [self.load(st, ft, p.ext(i)) for i, (fn, ft) in enumerate(r[1])])
        if k == 'array':
            return V(t, [self.load(st, r[1], p.ext(i)) for i in range(r[2])])
        if k == 'slice':
            b = self.load_leaf(st, Addr, p.ext(0))
            return V(t, [V('$addr', self.loaded_ptr(b, st)), V('int', self.load_leaf(st, BV64, p.ext(1))),
                         V('int', self.load_leaf(st, BV64, p.ext(2)))])
        if k == 'addr':
            return V(t, self.loaded_ptr(self.load_leaf(st, Addr, p), st))
        if k == 'fn':
            return V(t, self.load_leaf(st, Fn, p))
        return V(t, self.load_leaf(st, self.ts.sort(t), p))

    def loaded_ptr(self, term, st):
        # a pointer read from memory: if it is syntactically one of ours keep it precise
        if z3.is_app(term) and term.decl().eq(Addr.mkaddr) and z3.is_int_value(term.arg(0)):
            cid = term.arg(0).as_long()
            if cid < 0:
                path = []
                p = term.arg(1)
                ok = True
                while True:
                    if p.eq(Path.pnil):
                        break
                    if p.decl().eq(Path.pcons):
                        path.append(p.arg(0))
                        p = p.arg(1)
                    else:
                        ok = False
                        break
                if ok:
                    path.reverse()
                    return PAddr(cid=cid, path=[sel_const(s) if sel_const(s) is not None else s for s in path])
            if term.eq(NIL):
                return PAddr(base=NIL, lo=0)
        # every pointer found in memory refers to an object that already exists: it cannot be one of the objects this
        # path allocates later (ids below -nalloc)
        lo = -st.nalloc
        key = term.get_id()
        seen = getattr(st, 'ptr_lo', None)
        if seen is None:
            seen = st.ptr_lo = {}
        if seen.get(key) != lo:
            seen[key] = lo
            st.pc.append(z3.And(Addr.aid(term) >= lo, Addr.aid(term) < self.GLOBAL_BASE, z3.Implies(Addr.aid(term) == 0, term == NIL)))
        return PAddr(base=term, lo=lo)

    def store(self, st, p, v):
        r = self.ts.rep(v.t) if isinstance(v.t, str) and not v.t.startswith('$') else ('addr',)
        k = r[0]
        if k in ('struct', 'array'):
            for i, f in enumerate(v.x):
                self.store(st, p.ext(i), f)
            return
        if k == 'slice':
            self.store_leaf(st, Addr, p.ext(0), self.term(v.x[0]))
            self.store_leaf(st, BV64, p.ext(1), v.x[1].x)
            self.store_leaf(st, BV64, p.ext(2), v.x[2].x)
            return
        if k == 'addr':
            self.store_leaf(st, Addr, p, self.term(v))
            return
        if k == 'fn':
            if isinstance(v.x, Clo):
                self.store_leaf(st, Fn, p, self.clo_term(v.x))
                return
            self.store_leaf(st, Fn, p, v.x)
            return
        self.store_leaf(st, self.ts.sort(v.t), p, v.x)

    def clo_term(self, clo):
        # a closure stored into memory or boxed is represented by an opaque Fn constant remembered by name
        key = 'clo_' + mangle(clo.fn) + '_' + '_'.join(mangle(str(self.term(b))) for b in clo.bindings)
        t = z3.Const(key[:200], Fn)
        self.clos = getattr(self, 'clos', {})
        self.clos[str(t)] = clo
        return t

    def term(self, v):
        """z3 term of a leaf value."""
        if isinstance(v.x, PAddr):
            return v.x.term()
        if isinstance(v.x, Clo):
            return self.clo_term(v.x)
        return v.x

    def alloc(self, st, t, zero=True):
        st.nalloc += 1
        p = PAddr(cid=-st.nalloc)
        if zero:
            self.store(st, p, self.zero(t))
        return p

    # ------------------------------------------------------------------------------------------
    # obligations
    # ------------------------------------------------------------------------------------------
    def oblige(self, st, name, goal, tags=(), where='', kind='post', extra=None):
        if z3.is_true(goal):
            # trivially true after construction; still counted (cheap) so that obligation sets are stable
            pass
        tags = [t for t in tags if t not in ('seq', 'intf', 'tintf')]
        if self.mode == 'tintf':
            # obligations of the table-interference pass are families of their own
            i_ = name.rfind('/')
            name = name[:i_ + 1] + 'tintf.' + name[i_ + 1:]
        if self.mode == 'intf' and 'C02' not in tags and any(t in ('C01', 'C05') for t in tags):
            tags = tags + ['C02']
        asm = list(st.pc)
        # definitions of named arrays (spec.name_arrays) that the goal or the hypotheses mention but that were introduced
        # while evaluating on another copy of the state
        gd = getattr(self, 'arrdef_eqs', None)
        if gd:
            have = set(getattr(st, 'arrdef_names', ()) or ())
            used = self.arr_names_used([goal] + asm)
            todo = [n for n in used if n in gd]
            seen = set()
            while todo:
                n = todo.pop()
                if n in seen:
                    continue
                seen.add(n)
                eq = gd[n]
                if not any(eq.eq(a) for a in asm[-200:]):
                    asm.append(eq)
                for n2 in self.arr_names_used([eq]):
                    if n2 in gd and n2 not in seen:
                        todo.append(n2)
        self.obls.append(Obligation(name, list(tags), asm, goal, where, kind, self.cur_fn, extra))

    def arr_names_used(self, terms):
        cache = getattr(self, '_arruse', None)
        if cache is None:
            cache = self._arruse = {}
            self._arruse_keep = {}
        keep = self._arruse_keep

        def uses(t):
            i = t.get_id()
            if i in cache:
                return cache[i]
            cache[i] = frozenset()      # cycle guard
            keep[i] = t                 # z3 recycles the ids of dead terms: a cached id must stay that of a live term
            if z3.is_const(t) and t.decl().kind() == z3.Z3_OP_UNINTERPRETED:
                n = t.decl().name()
                r = frozenset([n]) if n.startswith('arr!') else frozenset()
            else:
                r = frozenset()
                for c in t.children():
                    r = r | uses(c)
                if z3.is_quantifier(t):
                    r = r | uses(t.body())
            cache[i] = r
            return r
        out = set()
        for t in terms:
            out |= uses(t)
        return out

    def check_nonnil(self, st, p, ins, what='deref'):
        if p.cid is not None:
            return
        b = p.base
        for t in st.notnil:
            if t.eq(b):
                return
        st.notnil.append(b)
        if b.eq(NIL):
            goal = z3.BoolVal(False)
        else:
            goal = Addr.aid(b) != 0
        self.oblige(st, 'safety/%s/nil-%s@L%s' % (self.short_fn(), what, self.line(ins)), goal, tags=['SAFE'],
                    where=ins.get('pos', ''), kind='safety')
        st.pc.append(goal)

    def line(self, ins):
        pos = ins.get('pos') or ''
        parts = pos.split(':')
        return parts[1] if len(parts) > 1 else '?'

    def short_fn(self):
        return self.prog.short(self.cur_fn)

    # ------------------------------------------------------------------------------------------
    # operands
    # ------------------------------------------------------------------------------------------
    GLOBAL_BASE = 10 ** 9

    def global_id(self, name):
        names = sorted(self.prog.globals.keys())
        return self.GLOBAL_BASE + names.index(name)

    def init_globals(self, st):
        """Package-level variables hold the values their package initialiser stores into them, provided no other
        function of the program ever stores to them (checked here); otherwise they are left unconstrained."""
        written = set()
        for fn, f in self.prog.funcs.items():
            if fn.endswith('.init'):
                continue
            der = {}
            for b in f['blocks']:
                for x in b['instrs']:
                    if x['op'] in ('IndexAddr', 'FieldAddr') and x['x']['k'] == 'global':
                        der[x['name']] = x['x']['n']
                    if x['op'] == 'Store':
                        a = x['addr']
                        if a['k'] == 'global':
                            written.add(a['n'])
                        elif a['k'] == 'reg' and a['n'] in der:
                            written.add(der[a['n']])
        self.globals_written = written
        for fn, f in self.prog.funcs.items():
            if not fn.endswith('.init') or not f['blocks']:
                continue
            fr = Frame(f)
            for b in f['blocks']:
                if b['comment'] != 'init.start':
                    continue
                for x in b['instrs']:
                    try:
                        if x['op'] in ('Call', 'Jump', 'DebugRef'):
                            continue
                        if x['op'] == 'Store':
                            a = x['addr']
                            root = a['n'] if a['k'] == 'global' else fr.names.get(a.get('n'), (None,))[0]
                            if a['k'] == 'global' and a['n'] in written:
                                continue
                            if a['k'] == 'global' and a['n'].endswith('init$guard'):
                                continue
                        self.simple(fr, x, st)
                        if x['op'] in ('IndexAddr', 'FieldAddr') and x['x']['k'] == 'global':
                            fr.names[x['name']] = (x['x']['n'],)
                    except (EngineError, KeyError):
                        continue
        # remember the initial values of the never-written package-level variables
        cc = {}
        for key, cell in getattr(st, 'mem', {}).items():
            for (q, v) in cell[1]:
                if q.cid is not None and q.cid >= 10 ** 9:
                    cc.setdefault((key if isinstance(key, str) else str(key), q.cid), []).append((q, v))
        self.const_cells = cc

    def operand(self, fr, o, st):
        k = o['k']
        if k in ('reg', 'param', 'freevar'):
            try:
                return fr.regs[o['n']]
            except KeyError:
                raise EngineError('undefined register %s in %s' % (o['n'], fr.f['name']))
        if k == 'const':
            t = o['t']
            if o.get('nil'):
                return self.zero(t)
            r = self.ts.rep(t)
            if r[0] == 'bool':
                return V(t, z3.BoolVal(bool(o['v'])))
            if r[0] == 'bv':
                return V(t, z3.BitVecVal(int(o['v']), r[1]))
            if r[0] == 'str':
                if o['v'] == '':
                    return V(t, STR_EMPTY)
                return V(t, z3.Const('strlit_' + mangle(o['v'])[:60], Str))
            if r[0] == 'f64':
                return V(t, z3.Const('f64lit_' + mangle(str(o['v'])), F64))
            if r[0] in ('struct', 'array', 'tp', 'iface', 'addr', 'fn', 'slice'):
                return self.zero(t)
            raise EngineError('const ' + str(o))
        if k == 'func':
            return V(o['t'], Clo(o['n'], []))
        if k == 'global':
            return V(o['t'], PAddr(cid=self.global_id(o['n'])))
        if k == 'builtin':
            return V('$builtin', o['n'])
        raise EngineError('operand ' + str(o))

    # ------------------------------------------------------------------------------------------
    # function execution
    # ------------------------------------------------------------------------------------------
    def run_fn(self, fname, args, st, k, bindings=None, depth=0):
        f = self.prog.funcs.get(fname)
        if f is None or not f['blocks']:
            raise EngineError('no body for ' + fname)
        if depth > self.max_inline_depth:
            raise EngineError('inline depth exceeded at ' + fname)
        fr = Frame(f)
        fr.depth = depth
        if len(args) != len(f['params']):
            raise EngineError('arity mismatch calling %s' % fname)
        for p, a in zip(f['params'], args):
            fr.regs[p['n']] = a
            fr.names[p['n']] = ('val', a)
        for fv, b in zip(f['freevars'], bindings or []):
            fr.regs[fv['n']] = b
        self.run_block(fr, 0, None, st, k)

    def loop_id(self, f, head):
        c = f['blocks'][head]['comment']
        same = [b['index'] for b in f['blocks'] if b['comment'] == c and b['index'] in IR.loop_heads(f)]
        if len(same) <= 1:
            return c
        return '%s.%d' % (c, same.index(head))

    def loop_policy(self, fr, head):
        """Returns ('unroll', n) | ('inv', [clauses], [decreases], havoc spec) for this loop."""
        f = fr.f
        lid = self.loop_id(f, head)
        con = self.spec.contract_for(f['name']) if self.spec else None
        invs, decs, unroll, havoc, bound = [], [], None, None, None
        if con:
            for c in con.of('loop'):
                if c.extra['loop'] != lid:
                    continue
                w = c.extra['what']
                if w == 'invariant':
                    invs.append(c)
                elif w == 'decreases':
                    decs.append(c)
                elif w == 'unroll':
                    unroll = int(c.extra['arg'])
                elif w == 'havoc':
                    havoc = c.extra['arg']
                elif w == 'bound':
                    bound = int(c.extra['arg'])
        invs = [c for c in invs if self.active(c)]
        if invs:
            return ('inv', invs, decs, havoc)
        if bound is not None:
            return ('bound', bound)
        return ('unroll', unroll if unroll is not None else self.opt.get('default_unroll', 8))

    def run_block(self, fr, bi, pred, st, k):
        d = getattr(fr, 'dry', None)
        if d is not None and pred is not None:
            head, body, outs = d
            if bi == head:
                outs.append(st)      # state at the start of the next iteration
                return
            if bi not in body:
                return               # loop exit: does not flow into another iteration
        if pred is not None and d is None:
            for h_, body_ in fr.heads.items():
                if (pred == h_ or pred in body_) and bi != h_ and bi not in body_ and fr.havocked.get(h_):
                    self.check_iteration(fr, h_, st, what='exit')
        if bi in fr.heads:
            pol = self.loop_policy(fr, bi)
            body = fr.heads[bi]
            key = (fr.id, bi)
            if pol[0] in ('unroll', 'bound'):
                if pred is None or pred not in body:
                    st.counters[key] = 0
                else:
                    st.counters[key] = st.counters.get(key, 0) + 1
                    if st.counters[key] > pol[1]:
                        if pol[0] == 'unroll':
                            self.oblige(st, 'unwind/%s/%s' % (self.prog.short(fr.f['name']), self.loop_id(fr.f, bi)),
                                        z3.BoolVal(False), tags=['SAFE'], kind='unwind')
                        else:
                            self.bounded_cut = getattr(self, 'bounded_cut', 0) + 1
                        return
            else:
                _, invs, decs, havoc = pol
                from_outside = pred is None or pred not in body
                if not from_outside and fr.havocked.get(bi):
                    # back edge: invariant preserved, variant decreased
                    self.phis(fr, bi, pred, st)
                    self.check_invariants(fr, bi, invs, decs, st, 'preserve')
                    self.check_iteration(fr, bi, st)
                    return
                # entry: establish, havoc, assume
                self.phis(fr, bi, pred, st)
                self.check_invariants(fr, bi, invs, [], st, 'init')
                self.havoc_loop(fr, bi, body, havoc, st)
                fr.havocked[bi] = True
                self.assume_invariants(fr, bi, invs, decs, st)
                st.loop_mark = len(st.trace)
                # state and locals at the loop head (after the invariants were assumed): `athead(e)` in iteration clauses;
                # kept per head so that the clauses of an outer loop see their own head again after an inner loop
                if not hasattr(st, 'loop_heads'):
                    st.loop_heads = {}
                st.loop_heads[(fr.id, bi)] = (len(st.trace), dict(self.local_env(fr, st)), st.copy())
                self.run_instrs(fr, bi, self.first_nonphi(fr.f['blocks'][bi]), pred, st, k)
                return
        self.phis(fr, bi, pred, st)
        self.run_instrs(fr, bi, self.first_nonphi(fr.f['blocks'][bi]), pred, st, k)

    def first_nonphi(self, blk):
        i = 0
        ins = blk['instrs']
        while i < len(ins) and ins[i]['op'] in ('Phi', 'DebugRef'):
            if ins[i]['op'] == 'DebugRef':
                # DebugRefs may interleave with phis; they are handled in phis()
                pass
            i += 1
        return i

    def phis(self, fr, bi, pred, st):
        blk = fr.f['blocks'][bi]
        vals = {}
        i = 0
        ins = blk['instrs']
        while i < len(ins) and ins[i]['op'] in ('Phi', 'DebugRef'):
            x = ins[i]
            if x['op'] == 'Phi':
                if pred is None:
                    raise EngineError('phi in entry block')
                idx = blk['preds'].index(pred)
                vals[x['name']] = (self.operand(fr, x['edges'][idx], st), x)
            i += 1
        for n, (v, x) in vals.items():
            fr.regs[n] = v
            c = (x.get('comment') or '').lstrip('#')
            if c:
                fr.names[c] = ('val', v)
        i = 0
        while i < len(ins) and ins[i]['op'] in ('Phi', 'DebugRef'):
            if ins[i]['op'] == 'DebugRef':
                self.debugref(fr, ins[i], st)
            i += 1

    def debugref(self, fr, ins, st):
        ident = ins.get('ident')
        if not ident:
            return
        x = ins['x']
        if x['k'] in ('reg', 'param', 'freevar') and x['n'] not in fr.regs:
            return
        try:
            v = self.operand(fr, x, st)
        except EngineError:
            return
        if ins.get('isaddr'):
            if isinstance(v.x, PAddr):
                et = self.prog.under(v.t)[1].get('elem')
                fr.names[ident] = ('addr', v.x, et)
        else:
            fr.names[ident] = ('val', v)

    def havoc_loop(self, fr, head, body, havoc, st):
        f = fr.f
        # phis at the head get fresh values
        blk = f['blocks'][head]
        for x in blk['instrs']:
            if x['op'] == 'Phi':
                v = self.fresh_val(x['type'], 'phi_' + x['name'], st)
                fr.regs[x['name']] = v
                c = (x.get('comment') or '').lstrip('#')
                if c:
                    fr.names[c] = ('val', v)
        if havoc == 'nothing':
            return
        # what one iteration can modify: dry run of the body on the havocked phis (obligations discarded)
        outs = []
        fr2 = fr.fork()
        fr2.dry = (head, body, outs)
        fr2.havocked = dict(fr.havocked)
        fr2.havocked[head] = True
        st_d = st.copy()
        n_obl, n_cov, n_paths = len(self.obls), len(self.covers), self.paths
        self.dry = getattr(self, 'dry', 0) + 1
        try:
            self.run_instrs(fr2, head, self.first_nonphi(blk), None, st_d, lambda s2, r: None)
        finally:
            self.dry -= 1
            del self.obls[n_obl:]
            del self.covers[n_cov:]
            self.paths = n_paths
        lp = self.fresh('loop_pure', BoolS)
        if self.apply_inferred_havoc(st, outs, 'L', lp):
            st.trace.append(('cb', None, [], [], 'loop', lp, 0))

    def apply_inferred_havoc(self, st, outs, tag, pure):
        changed_g = set()
        cells = {}
        reent = False
        for s2 in outs:
            for g, cur in s2.ghost.items():
                b = st.ghost.get(g)
                if b is None or not b.eq(cur):
                    changed_g.add(g)
            for key, cell in s2.mem.items():
                b = st.mem.get(key)
                nb = len(b[1]) if b else 0
                if b is not None and not b[0].eq(cell[0]):
                    cells[(key, None)] = None
                    continue
                base_ws = b[1] if b else []
                for (p, v) in cell[1]:
                    if p.cid is not None and p.cid < -st.nalloc:
                        continue        # allocated during the dry run
                    if any(addr_same(p, q) and w.eq(v) for (q, w) in base_ws):
                        continue        # unchanged entry
                    cells[(key, str(p.term()))] = (p, cell[2])
            if any(t[0] == 'cb' and t[5] is not None for t in s2.trace[len(st.trace):]):
                reent = True
        for g in changed_g:
            if g.startswith('$now') or g not in st.ghost:
                continue
            orig = st.ghost[g]
            # object-indexed ghosts changed only at some indices (Store chains over the original): havoc those entries
            idxs = []
            precise = z3.is_array(orig) and orig.sort().domain() == Addr
            if precise:
                for s2 in outs:
                    cur = s2.ghost.get(g)
                    while cur is not None and not cur.eq(orig):
                        if z3.is_app(cur) and cur.decl().kind() == z3.Z3_OP_STORE:
                            idxs.append(cur.arg(1))
                            cur = cur.arg(0)
                        else:
                            precise = False
                            break
                    if not precise:
                        break
            if precise:
                new = orig
                seen = []
                for ix in idxs:
                    if any(ix.eq(y) for y in seen):
                        continue
                    seen.append(ix)
                    new = z3.Store(new, ix, self.fresh('g%s_%s' % (tag, mangle(g)), orig.sort().range()))
                st.ghost[g] = new
            else:
                st.ghost[g] = self.fresh('g%s_%s' % (tag, mangle(g)), orig.sort())
        for (key, a), pv in cells.items():
            if pv is None:
                cell = st.mem[key]
                esc = set(getattr(st, 'escaped', ()) or ())
                keep = [(p, v) for (p, v) in cell[1] if p.cid is not None and p.cid < 0 and p.cid not in esc]
                cell[0] = self.fresh('M%s_%s' % (tag, mangle(key)), cell[0].sort())
                cell[1] = keep
            else:
                p, srt = pv
                self.store_leaf(st, srt, p, self.fresh('cell' + tag, srt))
        if reent:
            self.spec.reentrant_havoc(self, st, pure)
        return reent

    def check_invariants(self, fr, head, invs, decs, st, phase):
        env = self.local_env(fr, st)
        lid = self.loop_id(fr.f, head)
        for c in invs:
            g = self.spec.eval_bool(self, c.expr, env, st, self.old_for(st))
            self.oblige(st, '%s/%s/loop.%s.%s.%s' % (self.tagstr(c), self.prog.short(fr.f['name']), lid,
                                                      c.label or 'inv%d' % c.ordinal, phase), g, tags=c.tags,
                        where='%s:%d' % (c.file, c.line), kind='invariant')
        if phase == 'preserve':
            for c in decs:
                cur = self.spec.eval(self, c.expr, env, st, st)
                prev = fr.variant.get((head, c.line))
                if prev is not None:
                    g = z3.And(self.spec.as_int(cur) < prev, self.spec.as_int(cur) >= 0)
                    self.oblige(st, '%s/%s/loop.%s.decreases' % (self.tagstr(c), self.prog.short(fr.f['name']), lid), g,
                                tags=c.tags or ['C13'], where='%s:%d' % (c.file, c.line), kind='variant')

    def check_iteration(self, fr, head, st, what='iteration'):
        """`loop X: iteration expr` -- obligation at the end of every iteration (events since the loop head are visible
        through itercalls("f") / iterselect()); `loop X: exit expr` -- obligation on every edge that leaves the loop
        (`athead(e)`: at the head of the iteration that leaves)."""
        con = self.spec.contract_for(fr.f['name']) if self.spec else None
        if con is None:
            return
        lid = self.loop_id(fr.f, head)
        env = self.local_env(fr, st)
        hd = (getattr(st, 'loop_heads', None) or {}).get((fr.id, head))
        if hd is not None:
            st.loop_mark = hd[0]
            st.cur_head = hd
        for c in con.of('loop'):
            if c.extra['loop'] != lid or c.extra['what'] != what or not self.active(c):
                continue
            e = self.spec_parse(c.extra['arg'])
            g = self.spec.eval_bool(self, e[2], env, st, self.old_for(st))
            self.oblige(st, '%s/%s/loop.%s.%s.%s' % ('+'.join(e[0]) or 'AUX', self.prog.short(fr.f['name']), lid, what, e[1] or 'it'), g,
                        tags=e[0], where='%s:%d' % (c.file, c.line), kind='invariant')

    def spec_parse(self, text):
        import specparse
        tags, label = [], None
        m = specparse.TAGS.match(text)
        if m:
            tags = [x.strip() for x in m.group(1).split(',') if x.strip()]
            text = text[m.end():]
        m = specparse.LABEL.match(text)
        if m:
            label = m.group(1)
            text = text[m.end():]
        return tags, label, specparse.parse_expr(text)

    def assume_invariants(self, fr, head, invs, decs, st):
        env = self.local_env(fr, st)
        for c in invs:
            g = self.spec.eval_bool(self, c.expr, env, st, self.old_for(st))
            st.pc.append(g)
        if not hasattr(fr, 'variant'):
            fr.variant = {}
        for c in decs:
            cur = self.spec.eval(self, c.expr, env, st, st)
            fr.variant[(head, c.line)] = self.spec.as_int(cur)
        if not getattr(self, 'dry', 0):
            self.covers.append(('cover/%s/loop.%s.body' % (self.prog.short(fr.f['name']), self.loop_id(fr.f, head)), list(st.pc)))

    def tagstr(self, c):
        t = [x for x in c.tags if x not in ('seq', 'intf', 'tintf')]
        return '+'.join(t) if t else 'AUX'

    def active(self, c):
        """Clauses tagged {seq} / {intf} apply to one execution mode only."""
        if 'seq' in c.tags and self.mode != 'seq':
            return False
        if 'intf' in c.tags and self.mode != 'intf':
            return False
        if 'tintf' in c.tags and self.mode != 'tintf':
            return False
        return True

    def old_for(self, st):
        """State that old(.) denotes in invariants: the function entry, or -- in table-interference mode, inside a locked
        region -- the state right after the lock was acquired (and the environment had its turn)."""
        return getattr(st, 'lk_old', None) or getattr(self, 'fn_old', None) or st

    def local_env(self, fr, st):
        env = {}
        for n, ent in fr.names.items():
            env[n] = ent
        # free variables of a closure are the addresses of the captured variables
        for fv in fr.f.get('freevars') or []:
            n = fv['n']
            if n not in env and n in fr.regs and isinstance(fr.regs[n].x, PAddr):
                tt = self.prog.under(fv['t'])[1]
                if tt['kind'] == 'pointer':
                    env[n] = ('addr', fr.regs[n].x, tt['elem'])
        for n, v in fr.regs.items():
            if n not in env:
                env[n] = ('val', v)
        # locals renamed since the contracts were written (pure renaming, recognised in check.py): old names are aliases
        rn = (getattr(self.prog, 'renamed_locals', None) or {}).get(fr.f['name'])
        if rn:
            for old_n, new_n in rn.items():
                if old_n not in env and new_n in env:
                    env[old_n] = env[new_n]
        top = self.cur_fn
        own = fr.f['name'] == top or fr.f['name'].startswith(top + '$')
        pnames = set(p_['n'] for p_ in (fr.f.get('params') or [])) if fr.f['name'] == top else ()
        for n, ent in self.cur_env.items():
            if n in pnames and n in fr.names and not self.same_binding(fr.names[n], ent):
                # a parameter that the code re-assigns (Go parameters are mutable): the name denotes the current value,
                # `old(name)` the entry value
                env['$entry$' + n] = ent
                continue
            if own or n not in env:
                env[n] = ent
        return env

    @staticmethod
    def same_binding(a, b):
        if a is b:
            return True
        if a[0] != b[0] or a[0] != 'val':
            return a[0] != 'val' and a[1] is b[1]
        x, y = a[1].x, b[1].x
        if x is y:
            return True
        if isinstance(x, PAddr) and isinstance(y, PAddr):
            x, y = x.base, y.base
        try:
            return bool(x.eq(y))
        except Exception:
            return True

    # ------------------------------------------------------------------------------------------
    # instructions
    # ------------------------------------------------------------------------------------------
    def run_instrs(self, fr, bi, ii, pred, st, k):
        blk = fr.f['blocks'][bi]
        instrs = blk['instrs']
        n = len(instrs)
        while ii < n:
            ins = instrs[ii]
            op = ins['op']
            if op == 'DebugRef':
                self.debugref(fr, ins, st)
                ii += 1
                continue
            if op == 'Phi':
                ii += 1
                continue
            if op in ('Call', 'Go', 'Defer'):
                if op == 'Go':
                    self.do_go(fr, ins, st)
                    ii += 1
                    continue
                if op == 'Defer':
                    fr.defers.append(ins)
                    ii += 1
                    continue

                def cont(st2, res, fr=fr, ins=ins, ii=ii):
                    fr2 = fr.fork()
                    if ins.get('name'):
                        fr2.regs[ins['name']] = res
                    self.run_instrs(fr2, bi, ii + 1, pred, st2, k)
                self.cur_fr = fr
                self.do_call(fr, ins, ins['call'], st, cont)
                return
            if op == 'If':
                c = self.operand(fr, ins['cond'], st).x
                succs = blk['succs']
                cs = z3.simplify(c)
                for which, target in ((True, succs[0]), (False, succs[1])):
                    if z3.is_true(cs) and not which:
                        continue
                    if z3.is_false(cs) and which:
                        continue
                    st2 = st.copy()
                    st2.pc.append(c if which else z3.Not(c))
                    st2.pathid.append('%d%s' % (bi, 'T' if which else 'F'))
                    self.run_block(fr.fork(), target, bi, st2, k)
                return
            if op == 'Jump':
                self.run_block(fr, blk['succs'][0], bi, st, k)
                return
            if op == 'Return':
                res = [self.operand(fr, o, st) for o in ins['results']]
                self.paths += 1
                k(st, res)
                return
            if op == 'Panic':
                self.oblige(st, 'safety/%s/panic@L%s' % (self.prog.short(fr.f['name']), self.line(ins)),
                            z3.BoolVal(False), tags=['SAFE'], where=ins.get('pos', ''), kind='safety')
                return
            if op == 'RunDefers':
                self.run_defers(fr, st)
                ii += 1
                continue
            if op == 'Select':
                self.do_select(fr, ins, st)
                ii += 1
                continue
            self.simple(fr, ins, st)
            ii += 1
        raise EngineError('fell off block %d of %s' % (bi, fr.f['name']))

    def setreg(self, fr, ins, v):
        fr.regs[ins['name']] = v

    def simple(self, fr, ins, st):
        op = ins['op']
        m = getattr(self, 'i_' + op, None)
        if m is None:
            raise EngineError('unsupported instruction %s in %s' % (op, fr.f['name']))
        m(fr, ins, st)

    def i_Alloc(self, fr, ins, st):
        p = self.alloc(st, ins['elem'])
        if self.typed_struct(ins['elem']):
            self.assume_ptype(st, p, ins['elem'])
            try:
                # ghost rule (coupling.py): a newly allocated bucket is owned by no table
                if self.spec is not None and 'tbl' in self.spec.ghost_decl and self.canon_type(ins['elem']).split('.')[-1].split('[')[0] in ('bucketPadded', 'bucketOfPadded'):
                    tbl = self.spec.ghost_get(self, st, 'tbl').x
                    st.ghost['tbl'] = z3.Store(tbl, p.term(), NIL)
            except Exception:
                pass
        self.setreg(fr, ins, V(ins['type'], p))

    def i_Store(self, fr, ins, st):
        a = self.operand(fr, ins['addr'], st)
        v = self.operand(fr, ins['val'], st)
        self.check_nonnil(st, a.x, ins, 'store')
        self.on_store(fr, ins, st, a, v)
        if isinstance(v, tuple):
            raise EngineError('store of tuple')
        self.store(st, a.x, V(ins['val']['t'], v.x) if not isinstance(v.t, str) else v)

    def on_store(self, fr, ins, st, a, v):
        # ghost coupling: a store into a word of an owned bucket updates the abstract contents (coupling.py)
        if isinstance(a.x, PAddr) and self.spec is not None and not getattr(self, 'pure_depth', 0):
            reg = ins['addr'].get('n') if ins.get('op') == 'Store' else None
            if reg is None:
                try:
                    reg = ins['call']['args'][0].get('n')
                except Exception:
                    reg = None
            info = getattr(fr, 'addrinfo', {}).get(reg) if reg else None
            con_ = self.cur_contract
            if info is not None and con_ is not None and not getattr(self, 'dry', 0) and fr.f['name'] == self.cur_fn:
                # `onstore Struct.field: expr` -- obligation right before every store to that field (locals visible)
                for cl in con_.of('onstore'):
                    if cl.extra['fn'] != '%s.%s' % (info[0], info[1]) or not self.active(cl):
                        continue
                    e2 = dict(self.cur_env)
                    e2.update(self.local_env(fr, st))
                    g = self.spec.eval_bool(self, cl.expr, e2, st, self.old_for(st))
                    self.oblige(st, '%s/%s/onstore.%s.%s@L%s' % (self.tagstr(cl), self.short_fn(), cl.extra['fn'], cl.label or 'c%d' % cl.ordinal, self.line(ins)), g,
                                tags=cl.tags, where='%s:%d' % (cl.file, cl.line), kind='onstore')
            if info is not None and info[0] in ('bucket', 'bucketOf') and not isinstance(v, tuple) and not isinstance(v.x, list):
                import coupling
                lg = coupling.lane_goal(self, st, info, a.x, self.term(v)) if not getattr(self, 'dry', 0) else None
                if lg is not None:
                    self.oblige(st, '%s/%s/store.%s@L%s' % ('+'.join(lg[2]), self.short_fn(), lg[0], self.line(ins)), lg[1],
                                tags=lg[2], kind='discipline')
                coupling.on_store(self.spec, self, st, info, a.x, self.term(v))
        if isinstance(a.x, PAddr) and ins.get('op') == 'Store':
            self.on_access(st, 'plain-store', a.x, ins, fr, ins['addr'].get('n'))

    def i_UnOp(self, fr, ins, st):
        x = self.operand(fr, ins['x'], st)
        tok = ins['tok']
        t = ins['type']
        if tok == '*':
            self.check_nonnil(st, x.x, ins, 'load')
            self.on_load(fr, ins, st, x)
            self.setreg(fr, ins, self.load(st, t, x.x))
            ai = getattr(fr, 'addrinfo', {}).get(ins['x'].get('n'))
            if ai:
                vi = getattr(fr, 'valinfo', None)
                if vi is None:
                    vi = fr.valinfo = {}
                vi[ins['name']] = ai[1]
        elif tok == '!':
            self.setreg(fr, ins, V(t, z3.Not(x.x)))
        elif tok == '-':
            self.setreg(fr, ins, V(t, -x.x))
        elif tok == '^':
            self.setreg(fr, ins, V(t, ~x.x))
        else:
            raise EngineError('unop ' + tok)

    def on_load(self, fr, ins, st, a):
        if isinstance(a.x, PAddr):
            self.on_access(st, 'plain-load', a.x, ins, fr, ins['x'].get('n'))

    def on_access(self, st, kind, p, ins, fr=None, regname=None):
        info = None
        if fr is not None and regname is not None:
            info = getattr(fr, 'addrinfo', {}).get(regname)
        st.trace.append(('access', kind, p, self.line(ins), tuple(getattr(st, 'held', ())), info))
        if self.spec is not None and not getattr(self, 'dry', 0) and not getattr(self, 'pure_depth', 0):
            self.spec.access_discipline(self, st, kind, p, ins, info, fr)

    # ---- lock set (C13) --------------------------------------------------------------------------------------
    def lock_id(self, p):
        return p.term()

    def acquire(self, st, p, ins, kind='lock'):
        held = list(getattr(st, 'held', ()))
        # one internal lock at a time: a second acquisition while holding one could deadlock (lock order)
        self.oblige(st, 'C13/%s/lock.no-nesting@L%s' % (self.short_fn(), self.line(ins)), z3.BoolVal(len(held) == 0),
                    tags=['C13'], kind='discipline')
        held.append((self.lock_id(p), kind))
        st.held = tuple(held)
        st.trace.append(('acquire', p, self.line(ins)))
        if self.mode == 'tintf' and self.spec is not None and not getattr(self, 'pure_depth', 0):
            self.spec.lock_env_step(self, st, p)

    def release(self, st, p, ins, kind='lock'):
        held = list(getattr(st, 'held', ()))
        lid = self.lock_id(p)
        idx = [i for i, (h, kd) in enumerate(held) if h.eq(lid)]
        self.oblige(st, 'C13/%s/unlock.held@L%s' % (self.short_fn(), self.line(ins)), z3.BoolVal(bool(idx)), tags=['C13'],
                    kind='discipline')
        if idx:
            del held[idx[-1]]
        st.held = tuple(held)
        st.trace.append(('release', p, self.line(ins)))
        if self.mode == 'tintf' and not getattr(self, 'dry', 0) and not getattr(self, 'pure_depth', 0):
            # end of the locked region = the linearization point of a writer: the contract is evaluated on this state
            st.lk_post = None
            st.lk_post = st.copy()
            # after the release other goroutines run again: shared memory is arbitrary for the rest of the call (the
            # ghosts of the region just completed are kept: obligations after the release speak about its effect)
            for key, cell in st.mem.items():
                keep = [(q, v) for (q, v) in cell[1] if q.cid is not None]
                cell[0] = self.fresh('MRL_' + mangle(key), cell[0].sort())
                cell[1] = keep
            # ... subject to the object invariants that every operation of every goroutine preserves (`onrelease` clauses)
            con_ = self.cur_contract
            if con_ is not None and self.spec is not None:
                for c_ in con_.of('onrelease'):
                    st.pc.append(self.spec.eval_bool(self, c_.expr, dict(self.cur_env), st, st))

    def on_cond_wait(self, st, p, ins):
        # monitor discipline (C13): Wait is called with a mutex held; while waiting, other goroutines run: every shared
        # location and all ghost state may change
        held = getattr(st, 'held', ())
        self.oblige(st, 'C13/%s/condwait.under-mutex@L%s' % (self.short_fn(), self.line(ins)),
                    z3.BoolVal(len(held) == 1 and held[0][1] == 'mutex'), tags=['C13'], kind='discipline')
        if not getattr(self, 'dry', 0):
            self.spec.full_havoc(self, st, z3.BoolVal(False))

    def bvfit(self, term, w):
        cw = term.size()
        if cw == w:
            return term
        if cw < w:
            return z3.ZeroExt(w - cw, term)
        return z3.Extract(w - 1, 0, term)

    def i_BinOp(self, fr, ins, st):
        x = self.operand(fr, ins['x'], st)
        y = self.operand(fr, ins['y'], st)
        self.setreg(fr, ins, self.binop(ins['tok'], x, y, ins['type'], st, ins))

    def eq_vals(self, x, y):
        if isinstance(x.x, list):
            return z3.And(*[self.eq_vals(a, b) for a, b in zip(x.x, y.x)]) if x.x else z3.BoolVal(True)
        return self.term(x) == self.term(y)

    def binop(self, tok, x, y, rt, st, ins=None):
        if tok in ('==', '!='):
            r = self.ts.rep(x.t) if isinstance(x.t, str) and not x.t.startswith('$') else ('addr',)
            if r[0] == 'slice':
                raise EngineError('slice comparison')
            e = self.eq_vals(x, y)
            return V(rt, e if tok == '==' else z3.Not(e))
        r = self.ts.rep(x.t)
        if r[0] == 'bool':
            if tok == '&&':
                return V(rt, z3.And(x.x, y.x))
            if tok == '||':
                return V(rt, z3.Or(x.x, y.x))
        if r[0] == 'f64':
            fn = z3.Function('f64_' + {'<': 'lt', '<=': 'le', '>': 'gt', '>=': 'ge', '+': 'add', '-': 'sub', '*': 'mul',
                                       '/': 'div'}[tok], F64, F64, BoolS if tok in ('<', '<=', '>', '>=') else F64)
            return V(rt, fn(x.x, y.x))
        if r[0] == 'str':
            if tok == '+':
                return V(rt, z3.Function('str_concat', Str, Str, Str)(x.x, y.x))
            raise EngineError('string op ' + tok)
        if r[0] != 'bv':
            raise EngineError('binop %s on %s' % (tok, x.t))
        w, signed = r[1], r[2]
        a, b = x.x, y.x
        if tok in ('<<', '>>'):
            ry = self.ts.rep(y.t)
            if ry[2]:
                # negative shift count panics
                g = (b >= 0)
                if ins is not None and not z3.is_true(z3.simplify(g)):
                    self.oblige(st, 'safety/%s/shift-count@L%s' % (self.short_fn(), self.line(ins) if ins else '?'), g,
                                tags=['SAFE'], kind='safety')
                    st.pc.append(g)
            bw = b.size()
            if bw > w:
                big = z3.UGE(b, z3.BitVecVal(w, bw))
                bb = z3.Extract(w - 1, 0, b)
            else:
                big = None
                bb = z3.ZeroExt(w - bw, b) if bw < w else b
            if tok == '<<':
                res = a << bb
                zero = z3.BitVecVal(0, w)
            else:
                res = (a >> bb) if signed else z3.LShR(a, bb)
                zero = z3.If(a < 0, z3.BitVecVal(-1, w), z3.BitVecVal(0, w)) if signed else z3.BitVecVal(0, w)
            if big is not None:
                res = z3.If(big, zero, res)
            return V(rt, res)
        if tok == '+':
            return V(rt, a + b)
        if tok == '-':
            return V(rt, a - b)
        if tok == '*':
            return V(rt, a * b)
        if tok == '&':
            return V(rt, a & b)
        if tok == '|':
            return V(rt, a | b)
        if tok == '^':
            return V(rt, a ^ b)
        if tok == '&^':
            return V(rt, a & ~b)
        if tok in ('/', '%') and ins is None:
            if tok == '/':
                return V(rt, (a / b) if signed else z3.UDiv(a, b))
            return V(rt, z3.SRem(a, b) if signed else z3.URem(a, b))
        if tok in ('/', '%'):
            g = b != 0
            self.oblige(st, 'safety/%s/div-zero@L%s' % (self.short_fn(), self.line(ins) if ins else '?'), g, tags=['SAFE'],
                        kind='safety')
            st.pc.append(g)
            if tok == '/':
                return V(rt, (a / b) if signed else z3.UDiv(a, b))
            return V(rt, z3.SRem(a, b) if signed else z3.URem(a, b))
        if tok == '<':
            return V(rt, (a < b) if signed else z3.ULT(a, b))
        if tok == '<=':
            return V(rt, (a <= b) if signed else z3.ULE(a, b))
        if tok == '>':
            return V(rt, (a > b) if signed else z3.UGT(a, b))
        if tok == '>=':
            return V(rt, (a >= b) if signed else z3.UGE(a, b))
        raise EngineError('binop ' + tok)

    def i_Convert(self, fr, ins, st):
        x = self.operand(fr, ins['x'], st)
        t = ins['type']
        rs = self.ts.rep(x.t)
        rd = self.ts.rep(t)
        if rs[0] == 'bv' and rd[0] == 'bv':
            w0, w1 = rs[1], rd[1]
            if w1 == w0:
                r = x.x
            elif w1 < w0:
                r = z3.Extract(w1 - 1, 0, x.x)
            else:
                r = z3.SignExt(w1 - w0, x.x) if rs[2] else z3.ZeroExt(w1 - w0, x.x)
            self.setreg(fr, ins, V(t, r))
        elif rs[0] == 'addr' and rd[0] == 'addr':
            self.setreg(fr, ins, V(t, x.x))
            try:
                ut = self.prog.under(t)[1]
                if ut.get('kind') == 'pointer' and self.typed_struct(ut['elem']) and isinstance(x.x, PAddr):
                    self.assume_ptype(st, x.x, ut['elem'], maybe_nil=True)
            except Exception:
                pass
        elif rs[0] == 'addr' and rd[0] == 'bv':
            f = z3.Function('ptr2uint', Addr, BV64)
            finv = z3.Function('uint2ptr', BV64, Addr)
            # the numeric value of a pointer identifies the address (conversions of live pointers are injective)
            st.pc.append(finv(f(self.term(x))) == self.term(x))
            self.setreg(fr, ins, V(t, f(self.term(x))))
        elif rs[0] == 'bv' and rd[0] == 'f64':
            f = z3.Function('f64_of_%s%d' % ('s' if rs[2] else 'u', rs[1]), z3.BitVecSort(rs[1]), F64)
            self.setreg(fr, ins, V(t, f(x.x)))
        elif rs[0] == 'f64' and rd[0] == 'bv':
            f = z3.Function('f64_to_%s%d' % ('s' if rd[2] else 'u', rd[1]), F64, z3.BitVecSort(rd[1]))
            self.setreg(fr, ins, V(t, f(x.x)))
        elif rs[0] == 'f64' and rd[0] == 'f64':
            self.setreg(fr, ins, V(t, x.x))
        else:
            raise EngineError('convert %s -> %s' % (x.t, t))

    def i_ChangeType(self, fr, ins, st):
        x = self.operand(fr, ins['x'], st)
        self.setreg(fr, ins, V(ins['type'], x.x))

    def i_ChangeInterface(self, fr, ins, st):
        x = self.operand(fr, ins['x'], st)
        self.setreg(fr, ins, V(ins['type'], x.x))

    def i_MakeInterface(self, fr, ins, st):
        x = self.operand(fr, ins['x'], st)
        t = ins['type']
        if self.ts.rep(t)[0] == 'iface':
            if isinstance(x.x, Clo):
                x = V(x.t, self.clo_term(x.x))
            self.setreg(fr, ins, V(t, self.ts.box(V(ins['x']['t'], x.x))))
        else:
            # named non-empty interface: represented by the address of the implementing object
            self.setreg(fr, ins, V(t, x.x))

    def i_TypeAssert(self, fr, ins, st):
        x = self.operand(fr, ins['x'], st)
        at = ins['asserted']
        if self.ts.rep(x.t)[0] != 'iface':
            raise EngineError('typeassert on non-empty interface')
        if at not in self.ts.boxes:
            raise EngineError('typeassert to unboxed type ' + at)
        ok = self.ts.is_box(at, x.x)
        if ins.get('commaok'):
            v = self.ts.unbox(at, x.x)
            self.setreg(fr, ins, (v, V('bool', ok)))
            return
        self.oblige(st, 'safety/%s/typeassert@L%s' % (self.short_fn(), self.line(ins)), ok, tags=['SAFE'],
                    where=ins.get('pos', ''), kind='safety')
        st.pc.append(ok)
        self.setreg(fr, ins, self.ts.unbox(at, x.x))

    def i_MakeClosure(self, fr, ins, st):
        bs = [self.operand(fr, b, st) for b in ins['bindings']]
        self.setreg(fr, ins, V(ins['type'], Clo(ins['fn']['n'], bs)))

    def i_FieldAddr(self, fr, ins, st):
        x = self.operand(fr, ins['x'], st)
        self.check_nonnil(st, x.x, ins, 'fieldaddr')
        self.setreg(fr, ins, V(ins['type'], x.x.ext(ins['field'])))
        # static description of the location (struct type, field) for the access discipline
        try:
            pt = self.prog.under(ins['x']['t'])[1]
            stn = pt['elem']
            r = self.ts.rep(stn)
            if self.typed_struct(stn) and isinstance(x.x, PAddr):
                self.assume_ptype(st, x.x, stn)
                self.assume_ptype(st, x.x.ext(ins['field']), r[1][ins['field']][1])
            info = getattr(fr, 'addrinfo', None)
            if info is None:
                info = fr.addrinfo = {}
            fname = r[1][ins['field']][0]
            sn = self.prog.ty(stn).get('name') or stn
            info[ins['name']] = (sn, fname, ins['x'].get('n'))
        except Exception:
            pass

    def i_Field(self, fr, ins, st):
        x = self.operand(fr, ins['x'], st)
        self.setreg(fr, ins, x.x[ins['field']])

    def i_Extract(self, fr, ins, st):
        x = self.operand(fr, ins['tuple'], st)
        self.setreg(fr, ins, x[ins['index']])

    def i_IndexAddr(self, fr, ins, st):
        x = self.operand(fr, ins['x'], st)
        idx = self.operand(fr, ins['index'], st)
        r = self.ts.rep(x.t)
        i64 = self.to64(idx)
        if r[0] == 'slice':
            base, ln = x.x[0].x, x.x[1].x
            self.bounds(st, i64, ln, ins)
            self.setreg(fr, ins, V(ins['type'], base.ext(self.selc(i64))))
            try:
                et = self.prog.under(ins['type'])[1]['elem']
                if self.typed_struct(et) and isinstance(base, PAddr):
                    self.assume_ptype(st, base.ext(self.selc(i64)), et)
            except Exception:
                pass
        else:
            # pointer to array
            et = self.prog.under(x.t)[1]['elem']
            n = self.ts.rep(et)[2]
            self.check_nonnil(st, x.x, ins, 'indexaddr')
            self.bounds(st, i64, z3.BitVecVal(n, 64), ins)
            self.setreg(fr, ins, V(ins['type'], x.x.ext(self.selc(i64))))
            info = getattr(fr, 'addrinfo', None)
            if info and ins['x'].get('n') in info:
                info[ins['name']] = info[ins['x']['n']]
                try:
                    if any(k[0] == x.x.term().get_id() for k in getattr(st, 'ptyped', ())):
                        self.assume_ptype(st, x.x.ext(self.selc(i64)), self.ts.rep(et)[1])
                except Exception:
                    pass

    def selc(self, bv):
        s = z3.simplify(bv)
        if z3.is_bv_value(s):
            return s.as_long()
        return bv

    def to64(self, v):
        r = self.ts.rep(v.t)
        if r[1] == 64:
            return v.x
        return z3.SignExt(64 - r[1], v.x) if r[2] else z3.ZeroExt(64 - r[1], v.x)

    def bounds(self, st, idx, ln, ins):
        g = z3.ULT(idx, ln)
        gs = z3.simplify(g)
        if z3.is_true(gs):
            return
        self.oblige(st, 'safety/%s/index@L%s' % (self.short_fn(), self.line(ins)), g, tags=['SAFE'],
                    where=ins.get('pos', ''), kind='safety')
        st.pc.append(g)

    def i_Index(self, fr, ins, st):
        x = self.operand(fr, ins['x'], st)
        idx = self.operand(fr, ins['index'], st)
        i64 = z3.simplify(self.to64(idx))
        n = len(x.x)
        self.bounds(st, i64, z3.BitVecVal(n, 64), ins)
        if z3.is_bv_value(i64):
            self.setreg(fr, ins, x.x[i64.as_long()])
            return
        # symbolic index into an array value of leaves
        res = x.x[n - 1]
        for j in range(n - 2, -1, -1):
            res = self.ite_val(i64 == j, x.x[j], res)
        self.setreg(fr, ins, res)

    def ite_val(self, c, a, b):
        if isinstance(a.x, list):
            return V(a.t, [self.ite_val(c, p, q) for p, q in zip(a.x, b.x)])
        if isinstance(a.x, PAddr) or isinstance(b.x, PAddr):
            return V(a.t, PAddr(base=z3.If(c, self.term(a), self.term(b)), lo=min(getattr(a.x, 'lo', 0), getattr(b.x, 'lo', 0))))
        return V(a.t, z3.If(c, a.x, b.x))

    def i_Slice(self, fr, ins, st):
        x = self.operand(fr, ins['x'], st)
        r = self.ts.rep(x.t)
        lo = self.to64(self.operand(fr, ins['low'], st)) if ins.get('low') else z3.BitVecVal(0, 64)
        if r[0] == 'addr':
            # pointer to array
            et = self.prog.under(x.t)[1]['elem']
            n = self.ts.rep(et)[2]
            hi = self.to64(self.operand(fr, ins['high'], st)) if ins.get('high') else z3.BitVecVal(n, 64)
            if not (z3.is_bv_value(z3.simplify(lo)) and z3.simplify(lo).as_long() == 0):
                raise EngineError('slice with non-zero low bound')
            self.setreg(fr, ins, V(ins['type'], [V('$addr', x.x), V('int', hi), V('int', z3.BitVecVal(n, 64))]))
            return
        if r[0] == 'slice':
            base, ln, cp = x.x
            hi = self.to64(self.operand(fr, ins['high'], st)) if ins.get('high') else ln.x
            if not (z3.is_bv_value(z3.simplify(lo)) and z3.simplify(lo).as_long() == 0):
                raise EngineError('slice with non-zero low bound')
            g = z3.ULE(hi, cp.x)
            if not z3.is_true(z3.simplify(g)):
                self.oblige(st, 'safety/%s/slice@L%s' % (self.short_fn(), self.line(ins)), g, tags=['SAFE'], kind='safety')
                st.pc.append(g)
            self.setreg(fr, ins, V(ins['type'], [base, V('int', hi), cp]))
            return
        raise EngineError('slice of ' + x.t)

    def i_MakeSlice(self, fr, ins, st):
        ln = self.to64(self.operand(fr, ins['len'], st))
        cp = self.to64(self.operand(fr, ins['cap'], st))
        g = z3.And((ln >= 0), (ln <= cp))
        if not z3.is_true(z3.simplify(g)):
            self.oblige(st, 'safety/%s/makeslice@L%s' % (self.short_fn(), self.line(ins)), g, tags=['SAFE'], kind='safety')
            st.pc.append(g)
        st.nalloc += 1
        p = PAddr(cid=-st.nalloc)
        et = self.prog.under(ins['type'])[1]['elem']
        self.zero_region(st, p, et)
        self.setreg(fr, ins, V(ins['type'], [V('$addr', p), V('int', ln), V('int', cp)]))

    def zero_region(self, st, p, et):
        """A freshly made slice: every element is zero.  Recorded lazily: see load of fresh regions."""
        self.fresh_regions = getattr(self, 'fresh_regions', {})
        self.fresh_regions[p.cid] = et

    def i_MakeMap(self, fr, ins, st):
        st.nalloc += 1
        p = PAddr(cid=-st.nalloc)
        self.on_makemap(fr, ins, st, p)
        self.setreg(fr, ins, V(ins['type'], p))

    def on_makemap(self, fr, ins, st, p):
        kt, r = self.prog.under(ins['type'])
        ks, vs = self.ts.sort(r['key']), self.ts.sort(r['elem'])
        name = self.spec.gomap_name(ks, vs)
        self.spec.ensure_gomap(self, st, ks, vs)
        arr = st.ghost[name]
        empty = z3.K(ks, self.ts.opt_none(vs))
        st.ghost[name] = z3.Store(arr, p.term(), empty)

    def i_MapUpdate(self, fr, ins, st):
        m = self.operand(fr, ins['map'], st)
        kk = self.operand(fr, ins['key'], st)
        vv = self.operand(fr, ins['value'], st)
        kt, r = self.prog.under(m.t)
        ks, vs = self.ts.sort(r['key']), self.ts.sort(r['elem'])
        name = self.spec.gomap_name(ks, vs)
        self.spec.ensure_gomap(self, st, ks, vs)
        arr = st.ghost[name]
        inner = z3.Select(arr, self.term(m))
        st.ghost[name] = z3.Store(arr, self.term(m), z3.Store(inner, self.ts.pack(kk), self.ts.opt_some(vs, self.ts.pack(vv))))

    def i_MakeChan(self, fr, ins, st):
        st.nalloc += 1
        self.setreg(fr, ins, V(ins['type'], PAddr(cid=-st.nalloc)))

    # ------------------------------------------------------------------------------------------
    # calls
    # ------------------------------------------------------------------------------------------
    def do_call(self, fr, ins, call, st, k):
        mode = call['mode']
        args = [self.operand(fr, a, st) for a in call['args']]
        if mode == 'builtin':
            return self.builtin(fr, ins, call['fn'], args, st, k)
        if mode == 'invoke':
            recv = self.operand(fr, call['recv'], st)
            target = self.spec.resolve_invoke(self, call['iface'], call['method'])
            if target is None:
                raise EngineError('invoke on %s.%s: no implementation known' % (call['iface'], call['method']))
            return self.call_function(fr, ins, target, [recv] + args, st, k, via='invoke')
        if mode == 'static':
            fn = call['fn']
            name = fn.get('origin') or fn['n']
            return self.call_function(fr, ins, name, args, st, k)
        if mode == 'dynamic':
            fv = self.operand(fr, call['fn'], st)
            return self.call_value(fr, ins, fv, args, st, k)
        raise EngineError('call mode ' + mode)

    def call_value(self, fr, ins, fv, args, st, k):
        if isinstance(fv.x, Clo):
            clo = fv.x
            return self.call_function(fr, ins, clo.fn, args, st, k, bindings=clo.bindings)
        # opaque function value
        return self.opaque_call(fr, ins, fv, args, st, k)

    def opaque_call(self, fr, ins, fv, args, st, k):
        """Call of an unknown function value (user callback).  Logged in the trace; results are fresh.
        What it may havoc is decided by the spec layer (callback policy)."""
        g = fv.x != FN_NIL
        self.oblige(st, 'safety/%s/nil-func@L%s' % (self.short_fn(), self.line(ins)), g, tags=['SAFE'], kind='safety')
        st.pc.append(g)
        # `purefn name`: function values read from a field / parameter of that name are deterministic total functions of
        # their arguments (e.g. the hasher): modelled by an uninterpreted application, no ledger, no effects
        src = ins.get('call', {}).get('fn', {}) if isinstance(ins.get('call'), dict) else {}
        info = getattr(fr, 'valinfo', {}).get(src.get('n')) if src else None
        pure = getattr(self.spec.sf, 'purefns', set())
        if (info in pure) or (src.get('k') in ('param', 'freevar') and src.get('n') in pure):
            sig = self.prog.under(fv.t)[1]
            rts = sig.get('results') or []
            if len(rts) == 1 and not any(isinstance(a.x, list) for a in args):
                f = z3.Function('apply_' + mangle(self.prog.under(fv.t)[0]), Fn, *[self.term(a).sort() for a in args], self.ts.sort(rts[0]))
                return k(st, V(rts[0], f(fv.x, *[self.term(a) for a in args])))
        sig = self.prog.under(fv.t)[1]
        rets = [self.fresh_val(rt, 'cbret', st) for rt in (sig.get('results') or [])]
        # the callee may write through pointer arguments: local cells handed to it become arbitrary
        for a in args:
            if isinstance(a.x, PAddr) and a.x.cid is not None and isinstance(a.t, str):
                tt = self.prog.under(a.t)[1]
                if tt['kind'] == 'pointer':
                    self.store(st, a.x, self.fresh_val(tt['elem'], 'cbout', st))
        self.spec.on_opaque_call(self, fr, ins, fv, args, rets, st)
        if len(rets) == 0:
            k(st, None)
        elif len(rets) == 1:
            k(st, rets[0])
        else:
            k(st, tuple(rets))

    def call_function(self, fr, ins, name, args, st, k, bindings=None, via=None):
        f = self.prog.funcs.get(name)
        con = self.spec.contract_for(name) if self.spec else None
        if con is not None or self.spec.intrinsic(name) is None:
            pass
        if con is not None and not self.spec.inline_anyway(con, self) and not (getattr(self, 'pure_depth', 0) and f and f['blocks']
                                                                                and not any(c.kind == 'trusted' for c in con.clauses)):
            return self.spec.apply_contract(self, fr, ins, con, name, args, st, k)
        intr = self.spec.intrinsic(name)
        if intr is not None:
            return intr(self, fr, ins, name, args, st, k)
        if f is None or not f['blocks']:
            raise EngineError('call to external function without model: ' + name)

        def ret(st2, res):
            if len(res) == 0:
                k(st2, None)
            elif len(res) == 1:
                k(st2, res[0])
            else:
                k(st2, tuple(res))
        self.run_fn(name, args, st, ret, bindings=bindings, depth=fr.depth + 1)

    def builtin(self, fr, ins, name, args, st, k):
        if name == 'len':
            x = args[0]
            r = self.ts.rep(x.t)
            if r[0] == 'slice':
                return k(st, V('int', x.x[1].x))
            if r[0] == 'str':
                return k(st, V('int', z3.Function('str_len', Str, BV64)(x.x)))
            if r[0] == 'array':
                return k(st, V('int', z3.BitVecVal(r[2], 64)))
            raise EngineError('len of ' + x.t)
        if name == 'cap':
            return k(st, V('int', args[0].x[2].x))
        if name == 'append':
            return self.spec.do_append(self, fr, ins, args, st, k)
        if name == 'close':
            st.trace.append(('close', self.term(args[0])))
            return k(st, None)
        raise EngineError('builtin ' + name)

    def do_go(self, fr, ins, st):
        call = ins['call']
        args = [self.operand(fr, a, st) for a in call['args']]
        if call['mode'] == 'static':
            fv = V(call['fn']['t'], Clo(call['fn']['n'], []))
        else:
            fv = self.operand(fr, call['fn'], st)
        st.trace.append(('go', fv, args, list(st.pc), st.nalloc))
        cur = st.ghost.setdefault('$nspawn', z3.Const('g0_nspawn', BV64))
        st.ghost['$nspawn'] = cur + 1

    def run_defers(self, fr, st):
        for d in reversed(fr.defers):
            call = d['call']
            nm = call['fn']['n'] if call['mode'] == 'static' else '?'
            st.trace.append(('deferred', nm))

    def do_select(self, fr, ins, st):
        n = len(ins['states'])
        idx = self.fresh('select_idx', BV64)
        st.pc.append(z3.And((idx >= 0), (idx < n)))
        chans = [self.term(self.operand(fr, s['chan'], st)) for s in ins['states']]
        st.trace.append(('select', idx, chans))
        tt = self.prog.ty(ins['type'])
        vals = [V('int', idx), V('bool', self.fresh('select_ok', BoolS))]
        for et in tt['elems'][2:]:
            vals.append(self.fresh_val(et, 'recv', st))
        self.setreg(fr, ins, tuple(vals))
