"""C12: both twins are proved against the same specification text.

The contract files keep the two twins in regions delimited by `//@ -- twin-begin X` / `//@ -- twin-end X`.
Every clause of the generic twin must be, after the fixed renaming below, character for character the clause of
the non-generic twin (and vice versa).  Only the representation macros (how a stored value is boxed) differ.
"""
import re

PAIRS = [('Cache', 'CacheOf'), ('Map', 'MapOf')]
REPR_MACROS = {'IE', 'IV', 'ITEM', 'EC', 'cacheInv', 'cfgOK', 'allItems', 'mapInv', 'RI'}


def norm(line):
    s = line
    s = re.sub(r'\[K, V\]', '', s)
    s = re.sub(r'\[V\]', '', s)
    s = re.sub(r'Of\b', '', s)
    s = re.sub(r'Of\(', '(', s)
    s = re.sub(r'Of(\$|Wrapper|Default|Presized)', r'\1', s)
    s = re.sub(r': K ::', ': string ::', s)
    s = s.replace('mapOfRI', 'mapRI')
    # property tags say which check counts the clause, they are not part of the specification
    s = re.sub(r'\{[A-Z0-9, a-z]+\}\s*', '', s)
    s = re.sub(r'\s+', ' ', s).strip()
    return s


def regions(prog):
    out = {}
    for fl in prog.files:
        cur = None
        for c in fl.get('contracts') or []:
            t = c['text']
            m = re.match(r'^//@ -- twin-begin (\w+)', t)
            if m:
                cur = m.group(1)
                out.setdefault(cur, [])
                continue
            m = re.match(r'^//@ -- twin-end (\w+)', t)
            if m:
                cur = None
                continue
            if cur:
                out[cur].append((fl['file'], c['line'], t))
    return out


def clauses(lines, interface_only=False):
    """(function target, clause text) list, skipping representation macros.  interface_only (Map / MapOf, whose bucket
    layouts differ): loop invariants are proof artefacts of each layout and are not compared."""
    res = []
    fn = ''
    for (f, ln, t) in lines:
        body = t[3:].strip()
        if not body or body.startswith('--'):
            continue
        if interface_only and body.startswith('loop '):
            continue
        m = re.match(r'^define (\w+?)(Of)?\(', body)
        if m and m.group(1) in REPR_MACROS:
            continue
        m = re.match(r'^func (.*)$', body)
        if m:
            fn = norm(m.group(1))
        res.append((fn, norm(body), '%s:%d' % (f, ln)))
    return res


def twin_obligations(prog, spec):
    out = []
    regs = regions(prog)
    for a, b in PAIRS:
        if a not in regs or b not in regs:
            out.append({'name': 'C12/twins/%s-%s/regions' % (a, b), 'stable': 'C12/twins/%s-%s/regions' % (a, b), 'tags': ['C12'],
                        'status': 'sat', 'time': 0, 'solver': 'textdiff', 'where': '', 'kind': 'twin', 'fn': a, 'mode': 'seq',
                        'reason': 'twin region missing', 'model': None, 'probes': {}})
            continue
        ca, cb = clauses(regs[a], a == 'Map'), clauses(regs[b], a == 'Map')
        sa = {}
        for fn, t, w in ca:
            sa.setdefault(fn, []).append((t, w))
        sb = {}
        for fn, t, w in cb:
            sb.setdefault(fn, []).append((t, w))
        for fn in sorted(set(sa) | set(sb)):
            la = [t for t, w in sa.get(fn, [])]
            lb = [t for t, w in sb.get(fn, [])]
            ok = la == lb
            nm = 'C12/twins/%s-%s/%s/same-spec-text' % (a, b, fn or 'macros')
            reason = ''
            if not ok:
                diff = [x for x in la if x not in lb][:2] + [x for x in lb if x not in la][:2]
                reason = 'clauses differ between twins: ' + ' | '.join(diff)
            out.append({'name': nm, 'stable': nm, 'tags': ['C12'], 'status': 'unsat' if ok else 'sat', 'time': 0,
                        'solver': 'textdiff', 'where': (sa.get(fn) or sb.get(fn))[0][1], 'kind': 'twin', 'fn': fn, 'mode': 'seq',
                        'reason': reason, 'model': None, 'probes': {}})
    return out
