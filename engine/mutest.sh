#!/bin/sh
# usage: mutest.sh '<sed expr>' <file> [govc args]  -- run govc on a scratch copy of /repo with one edit
set -e
S=$(mktemp -d /tmp/mut.XXXXXX)
rsync -a --exclude .git /repo/ $S/
sed -i "$1" $S/$2
shift 2
(cd $S && diff -r /repo $S --exclude .git | head -20) || true
if [ "$1" = "--check" ]; then shift; for P in "$@"; do timeout 900 python3-vt /verif/engine/check.py $P --repo $S 2>&1 | grep -E "^VIOLATION|^  obligation|^$P:|^govc|UNDECIDED" | cut -c1-200; done; rm -rf $S; exit 0; fi
python3-vt /verif/engine/govc.py --repo $S "$@" 2>&1 | grep -v '^        ' | grep -v '^      ' | grep -v '^  K' | grep -v '^    some'
rm -rf $S
