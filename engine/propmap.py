"""Which contracts / modes serve which property, extra (non-symbolic-execution) obligations, evidence."""
import os
import re
import json
import time

ROOT = os.path.dirname(os.path.dirname(os.path.abspath(__file__)))

LEVEL = {
    'C01': 'proof', 'C09': 'proof', 'C12': 'proof', 'C05': 'proof', 'C11': 'proof', 'C06': 'proof', 'C07': 'proof',
    'C08': 'proof', 'C10': 'proof', 'C14': 'proof',
    'C02': 'other', 'C03': 'other', 'C04': 'other', 'C13': 'other', 'C15': 'other', 'C16': 'other',
}

# properties whose obligations are generated in interference mode as well
INTF = {'C05', 'C06'}
# properties that also get the table-interference pass of the writers (functions with `onlock` clauses)
TINTF = {'C03', 'C04', 'C05', 'C08', 'C10'}


def contract_tags(con):
    tags = set()
    for c in con.clauses:
        tags.update(c.tags)
        if c.kind == 'serves':
            tags.update(c.extra['arg'].replace(',', ' ').split())
    return tags


TWIN_REGIONS = None
FUNCTIONAL = {'C01', 'C05', 'C06', 'C07', 'C08', 'C09', 'C11'}


def in_twin_region(con, prog):
    global TWIN_REGIONS
    if TWIN_REGIONS is None:
        import twins
        TWIN_REGIONS = []
        for name, lines in twins.regions(prog).items():
            if lines:
                TWIN_REGIONS.append((lines[0][0], lines[0][1], lines[-1][1]))
    return any(con.file == f and lo <= con.line <= hi for (f, lo, hi) in TWIN_REGIONS)


def contract_serves(con, pid, prog=None):
    if pid == 'C12' and prog is not None and in_twin_region(con, prog):
        return bool(contract_tags(con) & FUNCTIONAL)
    if pid == 'C14' and is_cache_method(con):
        # write-once discipline of the cache object's fields: checked in every cache method
        return True
    return pid in contract_tags(con)


def counts_for(pid, tags):
    t = set(tags)
    if pid in t or t <= {'AUX', 'SAFE', 'FRAME'}:
        return True
    if pid == 'C02' and (t & {'C01', 'C05'}):
        return True
    if pid == 'C12' and (t & FUNCTIONAL):
        return True
    return False


def contract_modes(con):
    modes = ['seq']
    for c in con.of('mode'):
        modes = c.extra['arg'].replace(',', ' ').split()
    return modes


def is_cache_method(con):
    return con.fn is not None and ('.xsyncMap)' in con.fn or '.xsyncMapOf[' in con.fn)


def tasks_for(pid, spec, tier):
    """(contract target, mode) pairs whose obligations serve the property.  Interference mode (every call on the shared
    map is one atomic action with arbitrary environment steps in between) is used for the cache-layer methods: all of
    them for C02, those with C05 / C06 clauses additionally for those properties."""
    tasks = []
    for tgt, con in spec.sf.contracts.items():
        if con.fn is None:
            continue
        if any(c.kind == 'trusted' for c in con.clauses):
            continue
        tags = contract_tags(con)
        if pid == 'C02':
            if is_cache_method(con) and (tags & {'C01', 'C05', 'C06', 'C02'}):
                tasks.append((tgt, 'intf'))
            continue
        if not contract_serves(con, pid, spec.prog):
            continue
        tasks.append((tgt, 'seq'))
        if pid in INTF and is_cache_method(con):
            tasks.append((tgt, 'intf'))
        if pid in TINTF and con.of('onlock'):
            # table-interference pass: the state is arbitrary (subject to the representation invariant) when the bucket
            # lock is acquired; the locked region is one atomic step whose effect the contract describes
            tasks.append((tgt, 'tintf'))
    for lem in spec.sf.lemmas:
        if pid in lem.tags:
            tasks.append(('lemma:' + (lem.label or str(lem.line)), 'seq'))
    return tasks, []


def extra_checks(pid, prog, spec, tier):
    out = []
    if pid == 'C12':
        import twins
        out += twins.twin_obligations(prog, spec)
    return out


def scan_assumptions(spec):
    """Mechanical scan of the contract files for everything that is assumed rather than proved."""
    out = []
    for (n, t) in spec.sf.assumes:
        out.append('assume %s: %s' % (n, t))
    for tgt, con in spec.sf.contracts.items():
        for c in con.clauses:
            if c.kind == 'trusted':
                out.append('trusted contract (not verified): %s -- %s' % (tgt, c.extra.get('arg', '')))
            if c.kind == 'iterates':
                out.append('assumed higher-order contract (used by callers, not proved): %s iterates %s' % (tgt, c.extra.get('arg', '')))
            if c.extra.get('assumed'):
                out.append('assumed clause (used by callers, not proved): %s %s' % (tgt, c.label or c.kind))
            if c.kind == 'loop' and c.extra.get('what') in ('iteration', 'exit'):
                out.append('step clause (proved per iteration / per exit edge; the statement about the whole loop follows by '
                           'induction on the iteration count, a paper step): %s loop %s %s' % (tgt, c.extra.get('loop'), c.extra.get('what')))
            if c.kind in ('onlock', 'onrelease'):
                out.append('assumed about the state other goroutines leave behind (table-interference mode, %s): %s %s -- the '
                           'representation invariant without its sequential parts and the immutability of table headers; every '
                           'operation is proved to preserve that invariant in sequential mode' % (c.kind, tgt, c.label or ''))
    return out


def write_evidence(pid, tier, seed, prog, spec, outs, allres, discharged, nobl, nviol, known_hit, wall, extra, vac):
    from intrinsics import ASSUMED
    fns = sorted(set(o['fn'] for o in outs if o['fn']))
    solvers = {}
    solver_time = 0.0
    for r in allres:
        solvers[r['solver']] = solvers.get(r['solver'], 0) + 1
        solver_time += r.get('time', 0)
    samples = []
    for r in allres[:3] + [x for x in allres if x['status'] != 'unsat'][:3]:
        samples.append({k: r[k] for k in ('name', 'status', 'solver', 'time', 'where', 'kind') if k in r})
    bounded = sum(o.get('bounded', 0) for o in outs)
    level = manifest_level(pid) or LEVEL.get(pid, 'other')
    cov = {
        'obligations': nobl,
        'discharged': discharged,
        'checker_cmd': './check %s --tier %s' % (pid, tier),
        'trusted_base': [
            'go/packages + go/types + go/ssa (x/tools v0.29.0) translate /repo faithfully',
            "govc's SSA semantics and SMT encoding (engine/*.py); dropped features listed in DESIGN.md 2.7",
            'SMT solvers: z3 5.1.0 (python API), fallback race of z3 4.8.12 and cvc5 1.0 on unknown',
            'paper meta-arguments listed in DESIGN.md section 11 (induction over call sequences; rely/guarantee composition)',
        ],
        'functions_under_contract': [prog.short(f) for f in fns],
        'modes': sorted(set(o['mode'] for o in outs)),
        'paths_explored': sum(o['paths'] for o in outs),
        'by_solver': solvers,
        'solver_seconds': round(solver_time, 2),
        'bounded_obligations': bounded,
        'covers_checked': sum(len(o['covers']) for o in outs),
        'covers_failed': [n for n, s in vac],
        'known_findings_printed': [f['obligation'] for f, v in known_hit],
        'samples': samples,
        'explanation': EXPLAIN.get(pid, DEFAULT_EXPLAIN),
        'engine_errors': [o['error'] for o in outs if o['error']],
    }
    assumptions = ['assumed contract of %s: %s' % (k, v) for k, v in sorted(ASSUMED.items())]
    assumptions += scan_assumptions(spec)
    assumptions += [
        'CLOCK-EPOCH: the clock reads a time after 1970 (now >= 0)',
        'machine integers are modelled exactly as 64/32/8-bit vectors; nothing is treated as a mathematical integer except ghost counters',
        'user functions passed to Compute/GetOrCompute/LoadOrCompute return and do not touch the container',
        'allocation succeeds and returns fresh memory',
    ]
    ev = {'property_id': pid, 'tier': tier, 'seed': seed, 'level': level, 'coverage': cov, 'assumptions': assumptions,
          'wall_s': round(wall, 2), 'violations': nviol}
    os.makedirs(os.path.join(ROOT, 'evidence'), exist_ok=True)
    with open(os.path.join(ROOT, 'evidence', pid + '.json'), 'w') as f:
        json.dump(ev, f, indent=1)


def manifest_level(pid):
    try:
        m = json.load(open(os.path.join(ROOT, 'MANIFEST.json')))
        for c in m.get('checks', []):
            if c['property_id'] == pid:
                return c['level_claimed']['category']
    except Exception:
        pass
    return None


EXPLAIN = {
    'C09': 'Contract-based deductive proof: every expiration computation/report of both twins is discharged for all int64 '
           'd, D, now, e, except the obligation expiration/post.exact.far-future (now+d > MaxInt64 ns), which is an open known '
           'finding (see known_findings.json); therefore discharged < obligations and the level is not claimed as proof.',
}
DEFAULT_EXPLAIN = ('Contract-based deductive verification of the real functions (obligations generated from go/ssa, discharged by '
                   'SMT solvers); see DESIGN.md section 5 for which clauses of this property are decided, reduced to checked premises, '
                   'or not decided.')
