"""Callee-side verification of one function against its contract, and obligation discharge."""
import time
import os
import subprocess
import tempfile
import z3
from sorts import *
from symex import Exec, State, EngineError, Obligation
import specparse


def verify_function(prog, spec, con, mode='seq', options=None):
    """Symbolically executes con.fn and returns the Exec holding the generated obligations."""
    ex = Exec(prog, spec, mode=mode, options=options)
    ex.spec = spec
    ex.cur_fn = con.fn
    ex.cur_contract = con
    f = prog.funcs[con.fn]
    st = State()
    args = []
    env = {}
    for p in f['params']:
        v = ex.fresh_val(p['t'], 'arg_' + p['n'], st)
        args.append(v)
        env[p['n']] = ('val', v)
    bindings = []
    for p in f['freevars']:
        v = ex.fresh_val(p['t'], 'fv_' + p['n'], st)
        bindings.append(v)
        env[p['n']] = ('val', v)
    # pre-existing pointers have non-negative ids
    ex.cur_env = env
    spec.begin(ex, st, con, env)
    nreq = 0
    for c in con.of('requires'):
        g = spec.eval_bool(ex, c.expr, env, st, st)
        st.pc.append(g)
        nreq += 1
    ex.covers.append(('cover/%s/requires' % prog.short(con.fn), list(st.pc)))
    old = st.copy()
    short = prog.short(con.fn)

    def at_return(stf, res):
        env2 = dict(env)
        for names, r in zip(spec.result_names(f), res):
            for n in names:
                env2[n] = ('val', r)
        ex.covers.append(('cover/%s/return#%s' % (short, '.'.join(stf.pathid)), list(stf.pc)))
        for c in con.clauses:
            if c.kind == 'let':
                env2[c.extra['var']] = ('val', spec.eval(ex, c.expr, env2, stf, old))
            elif c.kind == 'calls':
                spec.calls_callee(ex, c, env2, stf, old, short)
            elif c.kind == 'ensures':
                g = spec.eval_bool(ex, c.expr, env2, stf, old)
                ex.oblige(stf, '%s/%s/%s#%s' % (ex.tagstr(c), short, c.label or 'post%d' % c.line, '.'.join(stf.pathid)), g,
                          tags=c.tags, where='%s:%d' % (c.file, c.line), kind='post')
        spec.frame_check(ex, con, env2, stf, old, short)

    ex.run_fn(con.fn, args, st, at_return, bindings=bindings)
    return ex


# ---------------------------------------------------------------------------------------------------

class Result:
    __slots__ = ('name', 'tags', 'status', 'time', 'solver', 'model', 'where', 'kind', 'fn', 'reason')

    def __init__(self, o):
        self.name = o.name
        self.tags = o.tags
        self.where = o.where
        self.kind = o.kind
        self.fn = o.fn
        self.status = 'unknown'
        self.time = 0.0
        self.solver = ''
        self.model = None
        self.reason = ''


def model_to_dict(m):
    out = {}
    try:
        for d in m.decls():
            try:
                out[d.name()] = str(m[d])[:400]
            except Exception:
                pass
    except Exception:
        pass
    return out


def has_quantifier(terms):
    seen = set()
    stack = list(terms)
    while stack:
        t = stack.pop()
        i = t.get_id()
        if i in seen:
            continue
        seen.add(i)
        if z3.is_quantifier(t):
            return True
        stack.extend(t.children())
    return False


def discharge(obls, timeout_ms=10000, external=True):
    """Returns list of Result. Strategy: z3 (python API, z3 5.1.0) first; on unknown, dump SMT-LIB and race
    /usr/bin/z3 (4.8.12) and cvc5."""
    results = []
    for o in obls:
        r = Result(o)
        t0 = time.time()
        if z3.is_true(o.goal):
            r.status = 'unsat'
            r.solver = 'trivial'
            results.append(r)
            continue
        s = z3.Solver()
        s.set('timeout', timeout_ms)
        for a in o.assumptions:
            s.add(a)
        s.add(z3.Not(o.goal))
        try:
            res = s.check()
        except z3.Z3Exception as e:
            res = z3.unknown
            r.reason = str(e)
        r.time = time.time() - t0
        r.solver = 'z3-5.1.0'
        if res == z3.unsat:
            r.status = 'unsat'
        elif res == z3.sat:
            r.status = 'sat'
            r.model = model_to_dict(s.model())
        else:
            r.status = 'unknown'
            r.reason = r.reason or s.reason_unknown()
            if external:
                smt = s.to_smt2()
                st2, solver2, t2 = race_external(smt, timeout_ms / 1000.0)
                r.time += t2
                if st2 in ('unsat', 'sat'):
                    r.status = st2
                    r.solver = solver2
        results.append(r)
    return results


def race_external(smt, timeout_s):
    t0 = time.time()
    d = tempfile.mkdtemp(prefix='govc_')
    path = os.path.join(d, 'q.smt2')
    with open(path, 'w') as f:
        f.write(smt)
    procs = []
    try:
        for nm, cmd in (('z3-4.8.12', ['/usr/bin/z3', '-T:%d' % int(timeout_s + 1), path]),
                        ('cvc5-1.0', ['cvc5', '--tlimit=%d' % int(timeout_s * 1000), path])):
            try:
                procs.append((nm, subprocess.Popen(cmd, stdout=subprocess.PIPE, stderr=subprocess.DEVNULL)))
            except OSError:
                pass
        status, solver = 'unknown', ''
        deadline = time.time() + timeout_s + 2
        pending = list(procs)
        while pending and time.time() < deadline:
            for (nm, p) in list(pending):
                if p.poll() is not None:
                    out = p.stdout.read().decode(errors='replace').strip().splitlines()
                    first = out[0].strip() if out else ''
                    pending.remove((nm, p))
                    if first in ('unsat', 'sat'):
                        status, solver = first, nm
                        pending = []
                        break
            time.sleep(0.01)
    finally:
        for nm, p in procs:
            if p.poll() is None:
                p.kill()
        try:
            os.remove(path)
            os.rmdir(d)
        except OSError:
            pass
    return status, solver, time.time() - t0


def run_contract(prog, spec, con, mode, options=None):
    options = dict(options or {})
    options['mode'] = mode
    return verify_function(prog, spec, con, mode=mode, options=options)


def check_covers(ex, timeout_ms):
    """Vacuity guard: the precondition is satisfiable and at least one return is reachable."""
    out = []
    req = [c for c in ex.covers if c[0].endswith('/requires')]
    rets = [c for c in ex.covers if '/return#' in c[0]]
    for (name, asm) in req:
        s = z3.Solver()
        s.set('timeout', min(timeout_ms, 5000))
        s.add(*asm)
        out.append((name, str(s.check())))
    if rets:
        ok = 'unsat'
        for (name, asm) in rets:
            s = z3.Solver()
            s.set('timeout', min(timeout_ms, 5000))
            s.add(*asm)
            r = str(s.check())
            if r == 'sat':
                ok = 'sat'
                break
            if r == 'unknown':
                ok = 'unknown'
        out.append((rets[0][0].split('#')[0], ok if ok != 'unknown' else 'sat'))
    return out


def probe_model(ex, spec, con, o):
    """Re-solve a failed obligation and evaluate the contract's probe expressions in the model (inputs for the replay)."""
    probes = {}
    try:
        s = z3.Solver()
        s.set('timeout', 5000)
        s.add(*o.assumptions)
        s.add(z3.Not(o.goal))
        if s.check() != z3.sat:
            return probes
        m = s.model()
        for (name, term) in getattr(ex, 'probe_terms', []):
            try:
                v = m.eval(term, model_completion=True)
                probes[name] = str(v)
            except Exception:
                pass
    except Exception:
        pass
    return probes
