"""Callee-side verification of one function against its contract, and obligation discharge."""
import time
import re
import os
import subprocess
import tempfile
import z3
from sorts import *
from symex import Exec, State, EngineError, Obligation
import specparse


def verify_function(prog, spec, con, mode='seq', options=None):
    """Symbolically executes con.fn and returns the Exec holding the generated obligations."""
    ex = Exec(prog, spec, mode=mode, options=options)
    ex.spec = spec
    ex.cur_fn = con.fn
    ex.cur_contract = con
    f = prog.funcs[con.fn]
    st = State()
    args = []
    env = {}
    for p in f['params']:
        v = ex.fresh_val(p['t'], 'arg_' + p['n'], st)
        args.append(v)
        env[p['n']] = ('val', v)
        try:
            ut = prog.under(p['t'])[1]
            if ut.get('kind') == 'pointer' and ex.typed_struct(ut['elem']) and isinstance(v.x, PAddr):
                ex.assume_ptype(st, v.x, ut['elem'], maybe_nil=True)
        except Exception:
            pass
    bindings = []
    for p in f['freevars']:
        v = ex.fresh_val(p['t'], 'fv_' + p['n'], st)
        bindings.append(v)
        tt = prog.under(p['t'])[1]
        if tt['kind'] == 'pointer' and isinstance(v.x, PAddr):
            # a free variable is the address of the captured variable; specs name the variable itself
            env[p['n']] = ('addr', v.x, tt['elem'])
            st.pc.append(Addr.aid(v.x.term()) != 0)
        else:
            env[p['n']] = ('val', v)
    # parameters renamed since the contracts were written (pure renaming, see check.py): old names are aliases
    for old_n, new_n in ((getattr(prog, 'renamed_locals', None) or {}).get(con.fn) or {}).items():
        if old_n not in env and new_n in env:
            env[old_n] = env[new_n]
    # pre-existing pointers have non-negative ids
    ex.cur_env = env
    ex.init_globals(st)
    spec.begin(ex, st, con, env)
    nreq = 0
    ex.mode = mode
    for c in con.of('requires'):
        g = spec.eval_bool(ex, c.expr, env, st, st)
        st.pc.append(g)
        nreq += 1
    ex.covers.append(('cover/%s/requires' % prog.short(con.fn), list(st.pc)))
    for c in con.of('effect'):
        words = c.extra['arg'].split()
        if words and words[0] == 'entersheld':
            pv = spec.eval(ex, specparse.parse_expr(' '.join(words[1:])), env, st, st)
            st.held = tuple(list(getattr(st, 'held', ())) + [(ex.lock_id(pv.x), 'lock')])
    held0 = tuple(getattr(st, 'held', ()))
    old = st.copy()
    # lets that only speak about the entry state are available to loop / traversal invariants
    for c in con.clauses:
        if c.kind == 'let':
            try:
                if mode == 'tintf':
                    # re-bound when a lock is acquired (spec.lock_env_step): kept in the state, not in the environment
                    st.lets[c.extra['var']] = spec.eval(ex, c.expr, env, old, old)
                else:
                    env[c.extra['var']] = ('val', spec.eval(ex, c.expr, env, old, old))
            except EngineError:
                pass
        elif c.kind in ('calls', 'ensures'):
            break
    ex.fn_old = old
    short = prog.short(con.fn)
    # probe expressions: evaluated in the model of a failed obligation, they are the concrete inputs of the replay
    ex.probe_terms = []
    if 'c' in env and short.startswith('(*xsyncMap'):
        of = 'Of' if 'xsyncMapOf' in short else ''
        pnames = set(p['n'] for p in f['params'])
        cand = [('now', 'now'), ('def', 'DEXP(c)')]
        if 'k' in pnames:
            cand += [('present', 'present(view(c.items)[k])'), ('e', 'IE%s(val(view(c.items)[k]))' % of)]
        if 'd' in pnames:
            cand.append(('d', 'd'))
        for nm, src in cand:
            try:
                scratch = old.copy()
                ex.probe_terms.append((nm, spec.eval(ex, specparse.parse_expr(src), env, scratch, scratch).x))
            except Exception:
                pass

    def at_return(stf, res):
        env2 = dict(env)
        # a returned pointer is handed to other code: the object is no longer private to this path
        def esc(v):
            if isinstance(v.x, PAddr):
                ex.note_escape(stf, v.x.term())
            elif isinstance(v.x, (list, tuple)):
                for y in v.x:
                    if isinstance(y, V):
                        esc(y)
            elif z3.is_expr(v.x) and v.x.sort() == Addr:
                ex.note_escape(stf, v.x)
        for r in res:
            if isinstance(r, V):
                esc(r)
        for names, r in zip(spec.result_names(f), res):
            for n in names:
                env2[n] = ('val', r)
        ex.covers.append(('cover/%s/return#%s' % (short, '.'.join(stf.pathid)), list(stf.pc)))
        pid = '.'.join(stf.pathid)
        if mode == 'seq':
            # every internal lock taken by this call is released on this return path (C13); callee effects
            # `acquires`/`releases` of the function's own contract describe intended differences
            want = list(held0)
            for c in con.of('effect'):
                words = c.extra['arg'].split()
                if words and words[0] in ('acquires', 'releases'):
                    pv = spec.eval(ex, specparse.parse_expr(' '.join(words[1:])), env, old, old)
                    lid = ex.lock_id(pv.x)
                    if words[0] == 'acquires':
                        want.append((lid, 'lock'))
                    else:
                        want = [w for w in want if not w[0].eq(lid)]
            have = list(getattr(stf, 'held', ()))
            same = len(have) == len(want) and all(any(h[0].eq(w[0]) for w in want) for h in have)
            primitive = any((c.extra['arg'].split() or [''])[0] in ('acquires', 'releases') for c in con.of('effect'))
            if not primitive:
                ex.oblige(stf, 'C13/%s/locks.balanced#%s' % (short, pid), z3.BoolVal(bool(same)), tags=['C13'], kind='discipline')
        old_s, post_s = old, stf
        extra_tags = []
        lp_none = any(c.extra.get('arg', '').strip() == 'none' for c in con.of('lp'))
        if mode == 'intf':
            extra_tags = ['C02']
            acts = getattr(stf, 'actions', [])
            if acts and not lp_none:
                # linearization point = the last atomic action on the shared container; every earlier action must leave
                # the contents unchanged; the contract is evaluated between the state right before the LP (after the
                # environment's interference) and the contents right after it.
                for (nm, before, after_g, line) in acts[:-1]:
                    goals = []
                    for g, at in after_g.items():
                        if g.startswith('view$'):
                            bt = before.ghost.get(g)
                            if bt is None:
                                ep = getattr(before, 'env_epoch', 0)
                                bt = z3.Const(('g0_' if ep == 0 else 'gENV%d_' % ep) + mangle(g), at.sort())
                            goals.append(bt == at)
                    ex.oblige(stf, 'C02/%s/step.%s.nonmodifying@L%s#%s' % (short, prog.short(nm), line, pid),
                              z3.And(*goals) if goals else z3.BoolVal(True), tags=['C02'], kind='step')
                nm, before, after_g, line = acts[-1]
                old_s = before
                post_s = stf.copy()
                post_s.env_epoch = getattr(before, 'env_epoch', 0)
                for g in list(post_s.ghost.keys()):
                    if g.startswith('view$'):
                        del post_s.ghost[g]
                for g, t in after_g.items():
                    if g.startswith('view$'):
                        post_s.ghost[g] = t
        if mode == 'tintf':
            if getattr(stf, 'lk_old', None) is not None:
                old_s = stf.lk_old
            if getattr(stf, 'lk_post', None) is not None:
                post_s = stf.lk_post.copy()
                post_s.trace = list(stf.trace)      # facts about the execution (calls made, locks) are those of the whole path
                post_s.held = getattr(stf, 'held', ())
        for c in con.of('ghostsync'):
            # `ghostsync view(m) := expr`: the abstract contents of the map object are, by definition, the contents of
            # its current table at this (quiescent) point
            mm = re.match(r'^view\((.*?)\)\s*:=\s*(.*)$', c.extra['arg'])
            mobj = spec.eval(ex, specparse.parse_expr(mm.group(1)), env2, post_s, old_s)
            val = spec.eval(ex, specparse.parse_expr(mm.group(2)), env2, post_s, old_s)
            kt, vt = spec.map_kv(ex, mobj.t)
            ks, vs = ex.ts.sort(kt), ex.ts.sort(vt)
            arr = spec.view_get(ex, post_s, ks, vs)
            post_s.ghost[spec.view_name(ks, vs)] = z3.Store(arr, ex.term(mobj), val.x)
        for c in con.clauses:
            if c.kind == 'let':
                env2[c.extra['var']] = ('val', spec.eval(ex, c.expr, env2, post_s, old_s))
            elif c.kind == 'calls':
                spec.calls_callee(ex, c, env2, stf, old_s, short)
            elif c.kind == 'ensures':
                if not ex.active(c) or c.extra.get('assumed'):
                    continue
                g = spec.eval_bool(ex, c.expr, env2, post_s, old_s)
                ex.oblige(stf, '%s/%s/%s%s#%s' % (ex.tagstr(c), short, 'intf.' if mode == 'intf' else '', c.label or 'post%d' % c.ordinal, pid), g,
                          tags=list(c.tags) + extra_tags, where='%s:%d' % (c.file, c.line), kind='post')
        if mode not in ('intf', 'tintf'):
            spec.frame_check(ex, con, env2, stf, old, short)

    ex.run_fn(con.fn, args, st, at_return, bindings=bindings)
    return ex


# ---------------------------------------------------------------------------------------------------

class Result:
    __slots__ = ('name', 'tags', 'status', 'time', 'solver', 'model', 'where', 'kind', 'fn', 'reason')

    def __init__(self, o):
        self.name = o.name
        self.tags = o.tags
        self.where = o.where
        self.kind = o.kind
        self.fn = o.fn
        self.status = 'unknown'
        self.time = 0.0
        self.solver = ''
        self.model = None
        self.reason = ''


def model_to_dict(m):
    out = {}
    try:
        for d in m.decls():
            try:
                out[d.name()] = str(m[d])[:400]
            except Exception:
                pass
    except Exception:
        pass
    return out


def has_quantifier(terms):
    seen = set()
    stack = list(terms)
    while stack:
        t = stack.pop()
        i = t.get_id()
        if i in seen:
            continue
        seen.add(i)
        if z3.is_quantifier(t):
            return True
        stack.extend(t.children())
    return False


def solve(assumptions, neg_goal, timeout_ms):
    s = z3.Solver()
    s.set('timeout', int(timeout_ms))
    s.add(*assumptions)
    s.add(neg_goal)
    try:
        res = s.check()
        reason = s.reason_unknown() if res == z3.unknown else ''
    except z3.Z3Exception as e:
        res, reason = z3.unknown, str(e)
    return s, res, reason


def discharge(obls, timeout_ms=10000, external=True, hints=None):
    """Returns list of Result.  Stages: (1) z3 5.1.0 (python API) on the VC as generated; (2) goal skolemised and the
    quantified hypotheses instantiated at the ground terms of the query (only instances of assumed formulas are added);
    (3) the stage-2 query dumped as SMT-LIB and raced on /usr/bin/z3 (4.8.12) and cvc5."""
    import inst as INST
    results = []
    for o in obls:
        r = Result(o)
        t0 = time.time()
        if z3.is_true(o.goal):
            r.status = 'unsat'
            r.solver = 'trivial'
            results.append(r)
            continue
        # conjuncts of the goal that literally are (conjuncts of) hypotheses need no solver
        goal = o.goal
        try:
            known = set()
            stack = list(o.assumptions)
            while stack:
                a_ = stack.pop()
                known.add(a_.get_id())
                if z3.is_and(a_):
                    stack.extend(a_.children())
            def prune(g):
                if g.get_id() in known:
                    return z3.BoolVal(True)
                if z3.is_and(g):
                    cs = [prune(c) for c in g.children()]
                    cs = [c for c in cs if not z3.is_true(c)]
                    return z3.And(*cs) if cs else z3.BoolVal(True)
                return g
            goal = prune(goal)
        except z3.Z3Exception:
            goal = o.goal
        if z3.is_true(goal):
            r.status = 'unsat'
            r.solver = 'syntactic'
            results.append(r)
            continue
        if goal is not o.goal:
            o = Obligation(o.name, o.tags, o.assumptions, goal, o.where, o.kind, o.fn, o.extra)
        quant = has_quantifier(list(o.assumptions) + [o.goal])
        r.solver = 'z3-5.1.0'
        done = False
        res = z3.unknown
        reason = ''
        if quant and not INST.contains_quant(o.goal):
            # stage 0: the quantifier-free part of the hypotheses alone (most safety obligations)
            s0, res0, reason0 = solve(INST.drop_quantified(o.assumptions), z3.Not(o.goal), 1000)
            if res0 == z3.unsat:
                r.status = 'unsat'
                r.solver = 'z3-5.1.0+qf'
                done = True
        hint = (hints or {}).get(re.sub(r'@L\d+', '', re.sub(r'#[0-9A-Za-z.]*$', '', o.name)))
        if quant and not done and hint == 'ext' and external:
            # the committed baseline recorded that only the external solvers decided this obligation: ask them first
            sx = z3.Solver()
            sx.add(*o.assumptions)
            sx.add(z3.Not(o.goal))
            st2, solver2, t2 = race_external(sx.to_smt2(), timeout_ms / 1000.0)
            if st2 == 'unsat':
                r.status = 'unsat'
                r.solver = solver2
                done = True
        st_ = {'done': done, 'res': res, 'reason': reason, 's': None}

        def stage_E():
            # stage E: E-matching only (triggers chosen by the spec evaluator, model-based instantiation off): fast and
            # predictable when the needed instances are reachable through the triggers
            if not quant:
                return
            se = z3.Solver()
            se.set('timeout', int(min(timeout_ms, 6000)))
            se.set('auto_config', False)
            se.set('mbqi', False)
            se.add(*o.assumptions)
            se.add(z3.Not(o.goal))
            try:
                if se.check() == z3.unsat:
                    r.status = 'unsat'
                    r.solver = 'z3-5.1.0+ematch'
                    st_['done'] = True
            except z3.Z3Exception:
                pass

        def stage_plain():
            first_to = timeout_ms if not quant else min(timeout_ms, 1500)
            s, res_, reason_ = solve(o.assumptions, z3.Not(o.goal), first_to)
            st_['res'], st_['reason'], st_['s'] = res_, reason_, s
            if res_ == z3.unsat:
                r.status = 'unsat'
                st_['done'] = True
            elif res_ == z3.sat:
                r.status = 'sat'
                r.model = model_to_dict(s.model())
                st_['done'] = True

        def stage_A():
            # stage A: skolemised goal, ground instances only (quantifier-free; sound for proving)
            if not quant:
                return
            try:
                pairs = INST.flatten(o.goal)
                allok = True
                used_e = [False]
                for (extra, g) in pairs:
                    if INST.contains_quant(g):
                        allok = False
                        break
                    asm = list(o.assumptions) + list(extra)
                    qf = INST.drop_quantified(asm)
                    res2 = z3.unknown
                    # the skolemised conjunct alone, E-matching only: small goals reach their instances through triggers
                    try:
                        se = z3.Solver()
                        se.set('timeout', int(timeout_ms))
                        se.set('auto_config', False)
                        se.set('mbqi', False)
                        se.add(*asm)
                        se.add(z3.Not(g))
                        if se.check() == z3.unsat:
                            used_e[0] = True
                            continue
                    except z3.Z3Exception:
                        pass
                    # progressively wider candidate sets: skolem-derived terms, then index terms / constants, then all
                    for maxrank, to in ((0, 2000), (1, min(timeout_ms, 6000)), (9, timeout_ms)):
                        insts = INST.instantiate(asm, [g] + list(extra), maxrank=maxrank)
                        s2, res2, reason2 = solve(qf + insts, z3.Not(g), to)
                        if res2 == z3.unsat:
                            break
                    if res2 != z3.unsat:
                        allok = False
                        break
                if allok:
                    r.status = 'unsat'
                    r.solver = 'z3-5.1.0+inst' + ('+ematch' if used_e[0] else '')
                    st_['done'] = True
            except z3.Z3Exception as e:
                r.reason = str(e)

        order = (stage_A, stage_E, stage_plain) if hint == 'inst' else (stage_E, stage_plain, stage_A)
        for stg in order:
            if not st_['done']:
                stg()
        done, res, reason = st_['done'], st_['res'], st_['reason']
        if not done:
            if True:
                r.status = 'unknown'
                r.reason = reason
                if quant and timeout_ms > 10000:
                    # stage C: instances + quantified hypotheses, then the other solvers on that query
                    try:
                        pairs = INST.flatten(o.goal)
                        allok = True
                        last_s = None
                        for (extra, g) in pairs:
                            asm = list(o.assumptions) + list(extra)
                            insts = INST.instantiate(asm, [g] + list(extra))
                            s2, res2, reason2 = solve(asm + insts, z3.Not(g), timeout_ms)
                            last_s = s2
                            if res2 != z3.unsat:
                                allok = False
                                if res2 == z3.sat:
                                    r.model = model_to_dict(s2.model())
                                    r.reason = 'sat after ground instantiation (candidate counterexample)'
                                else:
                                    r.reason = reason2
                                break
                        if allok:
                            r.status = 'unsat'
                            r.solver = 'z3-5.1.0+inst'
                        elif external and last_s is not None and len(pairs) == 1:
                            st2, solver2, t2 = race_external(last_s.to_smt2(), timeout_ms / 1000.0)
                            if st2 == 'unsat':
                                r.status = 'unsat'
                                r.solver = solver2 + '+inst'
                    except z3.Z3Exception as e:
                        r.reason = str(e)
                elif external and hint != 'ext':
                    sx = z3.Solver()
                    sx.add(*o.assumptions)
                    sx.add(z3.Not(o.goal))
                    st2, solver2, t2 = race_external(sx.to_smt2(), timeout_ms / 1000.0)
                    if st2 in ('unsat', 'sat'):
                        r.status = st2
                        r.solver = solver2
        r.time = time.time() - t0
        results.append(r)
    return results


def race_external(smt, timeout_s):
    t0 = time.time()
    d = tempfile.mkdtemp(prefix='govc_')
    path = os.path.join(d, 'q.smt2')
    with open(path, 'w') as f:
        f.write(smt)
    procs = []
    try:
        for nm, cmd in (('z3-4.8.12', ['/usr/bin/z3', '-T:%d' % int(timeout_s + 1), path]),
                        ('cvc5-1.0', ['cvc5', '--tlimit=%d' % int(timeout_s * 1000), path])):
            try:
                procs.append((nm, subprocess.Popen(cmd, stdout=subprocess.PIPE, stderr=subprocess.DEVNULL)))
            except OSError:
                pass
        status, solver = 'unknown', ''
        deadline = time.time() + timeout_s + 2
        pending = list(procs)
        while pending and time.time() < deadline:
            for (nm, p) in list(pending):
                if p.poll() is not None:
                    out = p.stdout.read().decode(errors='replace').strip().splitlines()
                    first = out[0].strip() if out else ''
                    pending.remove((nm, p))
                    if first in ('unsat', 'sat'):
                        status, solver = first, nm
                        pending = []
                        break
            time.sleep(0.01)
    finally:
        for nm, p in procs:
            if p.poll() is None:
                p.kill()
        try:
            os.remove(path)
            os.rmdir(d)
        except OSError:
            pass
    return status, solver, time.time() - t0


def run_contract(prog, spec, con, mode, options=None):
    options = dict(options or {})
    options['mode'] = mode
    return verify_function(prog, spec, con, mode=mode, options=options)


def check_covers(ex, timeout_ms):
    """Vacuity guard: the precondition, every loop body / traversal body and at least one return are reachable
    (their assumptions are not provably contradictory).  A cover name fails only if ALL its instances are unsat."""
    import inst as INST
    groups = {}
    for (name, asm) in ex.covers:
        key = name.split('#')[0]
        groups.setdefault(key, []).append(asm)
    out = []
    for key, lst in groups.items():
        status = 'unsat'
        for asm in lst[:12]:
            # quantifier-free part only (fast): detects contradictory path conditions / preconditions
            s = z3.Solver()
            s.set('timeout', min(timeout_ms, 2000))
            s.add(*INST.drop_quantified(asm))
            r = s.check()
            if r != z3.unsat:
                status = 'sat'
                break
        out.append((key, status))
    return out


def probe_model(ex, spec, con, o):
    """Re-solve a failed obligation and evaluate the contract's probe expressions in the model (inputs for the replay)."""
    probes = {}
    try:
        s = z3.Solver()
        s.set('timeout', 5000)
        s.add(*o.assumptions)
        s.add(z3.Not(o.goal))
        if s.check() != z3.sat:
            return probes
        m = s.model()
        for (name, term) in getattr(ex, 'probe_terms', []):
            try:
                v = m.eval(term, model_completion=True)
                probes[name] = str(v)
            except Exception:
                pass
    except Exception:
        pass
    return probes


def verify_lemma(prog, spec, lem, options=None):
    """A file-level `lemma` clause: a closed formula over the program's pure helper functions (executed symbolically),
    proved in the state right after package initialisation."""
    ex = Exec(prog, spec, mode='seq', options=options)
    ex.cur_fn = 'lemma'
    ex.cur_contract = None
    st = State()
    ex.init_globals(st)
    g = spec.eval_bool(ex, lem.expr, {}, st, st)
    ex.oblige(st, '%s/lemma/%s' % (ex.tagstr(lem), lem.label or 'l%d' % lem.line), g, tags=lem.tags,
              where='%s:%d' % (lem.file, lem.line), kind='lemma')
    ex.covers.append(('cover/lemma/%s/requires' % (lem.label or lem.line), list(st.pc)))
    return ex
