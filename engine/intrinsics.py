"""Assumed contracts of standard-library / runtime functions (NOT verified; listed in every evidence
file).  Each intrinsic is a python function (ex, fr, ins, name, args, st, k)."""
import z3
from sorts import *

ASSUMED = {}   # name -> one-line statement of the assumed contract


def assumed(name, text):
    def deco(fn):
        ASSUMED[name] = text
        INTRINSICS[name] = fn
        return fn
    return deco


INTRINSICS = {}

TIME_T = 'time.Time'


def time_unixnano(ex, t):
    f = z3.Function('tm_unixnano', BV64, BV64, Addr, BV64)
    return f(t.x[0].x, t.x[1].x, ex.term(t.x[2]))


def fresh_time(ex, st, prefix):
    return ex.fresh_val(TIME_T, prefix, st)


def time_unix(ex, s, n):
    fw = z3.Function('tu_wall', BV64, BV64, BV64)
    fx = z3.Function('tu_ext', BV64, BV64, BV64)
    fl = z3.Function('tu_loc', BV64, BV64, Addr)
    r = ex.ts.rep(TIME_T)
    fields = r[1]
    return V(TIME_T, [V(fields[0][1], fw(s, n)), V(fields[1][1], fx(s, n)), V(fields[2][1], PAddr(base=fl(s, n), lo=0))])


@assumed('time.Now', 'time.Now() returns the instant `now` of the (virtual) clock; the clock never runs backwards')
def i_time_now(ex, fr, ins, name, args, st, k):
    t = fresh_time(ex, st, 'now')
    st.pc.append(time_unixnano(ex, t) == ex.spec.clock_read(ex, st))
    st.trace.append(('clock',))
    k(st, t)


@assumed('(time.Time).UnixNano', 't.UnixNano() is the int64 nanosecond count of t')
def i_time_unixnano(ex, fr, ins, name, args, st, k):
    k(st, V('int64', time_unixnano(ex, args[0])))


@assumed('(time.Time).Add', 't.Add(d).UnixNano() == t.UnixNano() + d in 64-bit wrap-around arithmetic (what the library computes)')
def i_time_add(ex, fr, ins, name, args, st, k):
    t2 = fresh_time(ex, st, 'tadd')
    st.pc.append(time_unixnano(ex, t2) == time_unixnano(ex, args[0]) + args[1].x)
    k(st, t2)


@assumed('time.Unix', 'time.Unix(s, n) denotes the instant s*1e9+n ns and is a function of (s, n)')
def i_time_unix(ex, fr, ins, name, args, st, k):
    t = time_unix(ex, args[0].x, args[1].x)
    st.pc.append(time_unixnano(ex, t) == args[0].x * z3.BitVecVal(1000000000, 64) + args[1].x)
    k(st, t)


@assumed('time.Until', 'time.Until(t) == t.UnixNano() - now (no saturation: requires 0 <= now and t.UnixNano() > 0)')
def i_time_until(ex, fr, ins, name, args, st, k):
    st.trace.append(('clock',))
    k(st, V('time.Duration', time_unixnano(ex, args[0]) - ex.spec.clock_read(ex, st)))


def box_same_type(ex, a, b):
    alts = []
    for t, (ctor, accs, rec) in ex.ts.boxes.items():
        alts.append(z3.And(rec(a), rec(b)))
    return z3.Or(*alts) if alts else z3.BoolVal(False)


@assumed('(*sync/atomic.Value).Load', 'atomic.Value.Load returns the most recently stored value (sequentially consistent), nil if none')
def i_av_load(ex, fr, ins, name, args, st, k):
    p = args[0].x
    ex.check_nonnil(st, p, ins, 'atomic.Value')
    st.trace.append(('atomic', 'load', p.term(), ex.line(ins)))
    k(st, V('interface{}', ex.load_leaf(st, ex.ts.iface, p.ext(0))))


@assumed('(*sync/atomic.Value).Store', 'atomic.Value.Store(x) panics iff x is nil or of a different dynamic type than an earlier store; otherwise replaces the value atomically')
def i_av_store(ex, fr, ins, name, args, st, k):
    p = args[0].x
    ex.check_nonnil(st, p, ins, 'atomic.Value')
    x = args[1].x
    old = ex.load_leaf(st, ex.ts.iface, p.ext(0))
    g = z3.And(x != ex.ts.INIL, z3.Or(old == ex.ts.INIL, box_same_type(ex, old, x)))
    ex.oblige(st, 'safety/%s/atomic.Value.Store@L%s' % (ex.short_fn(), ex.line(ins)), g, tags=['SAFE'], kind='safety')
    st.pc.append(g)
    st.trace.append(('atomic', 'store', p.term(), ex.line(ins)))
    ex.store_leaf(st, ex.ts.iface, p.ext(0), x)
    k(st, None)


@assumed('runtime.SetFinalizer', 'runtime.SetFinalizer(obj, f) arranges for f(obj) to run some time after obj becomes unreachable (GC behaviour is not modelled)')
def i_setfinalizer(ex, fr, ins, name, args, st, k):
    # args are interface{}-boxed: (obj, func)
    obj, fn = args[0], args[1]
    fname = ''
    objaddr = None
    for tname, (ctor, accs, rec) in ex.ts.boxes.items():
        pass
    # recover the boxed pointer and the closure name syntactically
    t0 = obj.x
    if z3.is_app(t0) and t0.num_args() == 1:
        objaddr = t0.arg(0)
    t1 = fn.x
    if z3.is_app(t1) and t1.num_args() == 1:
        clo = getattr(ex, 'clos', {}).get(str(t1.arg(0)))
        if clo is not None:
            fname = clo.fn.rsplit('.', 1)[-1]
    st.trace.append(('finalizer', obj, fn, fname, objaddr))
    k(st, None)


@assumed('time.NewTicker', 'time.NewTicker(d) panics iff d <= 0; its channel delivers a tick every d (real time is not modelled)')
def i_newticker(ex, fr, ins, name, args, st, k):
    g = args[0].x > 0
    ex.oblige(st, 'safety/%s/NewTicker-positive@L%s' % (ex.short_fn(), ex.line(ins)), g, tags=['SAFE', 'C15'], kind='safety')
    st.pc.append(g)
    st.nalloc += 1
    p = PAddr(cid=-st.nalloc)
    st.trace.append(('ticker', args[0].x, p.term()))
    k(st, V(ins['type'], p))


@assumed('(*time.Ticker).Stop', 'Ticker.Stop has no effect visible to this library')
def i_tickerstop(ex, fr, ins, name, args, st, k):
    k(st, None)


@assumed('runtime.Gosched', 'runtime.Gosched() yields; no effect on memory')
def i_gosched(ex, fr, ins, name, args, st, k):
    k(st, None)


@assumed('math/bits.TrailingZeros64', 'bits.TrailingZeros64(x) = number of trailing zero bits of x, 64 for x == 0')
def i_tz64(ex, fr, ins, name, args, st, k):
    x = args[0].x
    res = z3.BitVecVal(64, 64)
    for i in range(63, -1, -1):
        res = z3.If(z3.Extract(i, i, x) == 1, z3.BitVecVal(i, 64), res)
    k(st, V('int', res))
