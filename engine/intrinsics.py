"""Assumed contracts of standard-library / runtime functions (NOT verified; listed in every evidence
file).  Each intrinsic is a python function (ex, fr, ins, name, args, st, k)."""
import z3
from sorts import *

ASSUMED = {}   # name -> one-line statement of the assumed contract


def assumed(name, text):
    def deco(fn):
        ASSUMED[name] = text
        INTRINSICS[name] = fn
        return fn
    return deco


INTRINSICS = {}

TIME_T = 'time.Time'


def time_unixnano(ex, t):
    f = z3.Function('tm_unixnano', BV64, BV64, Addr, BV64)
    return f(t.x[0].x, t.x[1].x, ex.term(t.x[2]))


def fresh_time(ex, st, prefix):
    return ex.fresh_val(TIME_T, prefix, st)


def time_unix(ex, s, n):
    fw = z3.Function('tu_wall', BV64, BV64, BV64)
    fx = z3.Function('tu_ext', BV64, BV64, BV64)
    fl = z3.Function('tu_loc', BV64, BV64, Addr)
    r = ex.ts.rep(TIME_T)
    fields = r[1]
    return V(TIME_T, [V(fields[0][1], fw(s, n)), V(fields[1][1], fx(s, n)), V(fields[2][1], PAddr(base=fl(s, n), lo=0))])


@assumed('time.Now', 'time.Now() returns the instant `now` of the (virtual) clock; the clock never runs backwards')
def i_time_now(ex, fr, ins, name, args, st, k):
    t = fresh_time(ex, st, 'now')
    st.pc.append(time_unixnano(ex, t) == ex.spec.clock_read(ex, st))
    st.trace.append(('clock',))
    k(st, t)


@assumed('(time.Time).UnixNano', 't.UnixNano() is the int64 nanosecond count of t')
def i_time_unixnano(ex, fr, ins, name, args, st, k):
    k(st, V('int64', time_unixnano(ex, args[0])))


@assumed('(time.Time).Add', 't.Add(d).UnixNano() == t.UnixNano() + d in 64-bit wrap-around arithmetic (what the library computes)')
def i_time_add(ex, fr, ins, name, args, st, k):
    t2 = fresh_time(ex, st, 'tadd')
    st.pc.append(time_unixnano(ex, t2) == time_unixnano(ex, args[0]) + args[1].x)
    k(st, t2)


@assumed('time.Unix', 'time.Unix(s, n) denotes the instant s*1e9+n ns and is a function of (s, n)')
def i_time_unix(ex, fr, ins, name, args, st, k):
    t = time_unix(ex, args[0].x, args[1].x)
    st.pc.append(time_unixnano(ex, t) == args[0].x * z3.BitVecVal(1000000000, 64) + args[1].x)
    k(st, t)


@assumed('time.Until', 'time.Until(t) == t.UnixNano() - now (no saturation: requires 0 <= now and t.UnixNano() > 0)')
def i_time_until(ex, fr, ins, name, args, st, k):
    st.trace.append(('clock',))
    k(st, V('time.Duration', time_unixnano(ex, args[0]) - ex.spec.clock_read(ex, st)))


def box_same_type(ex, a, b):
    alts = []
    for t, (ctor, accs, rec) in ex.ts.boxes.items():
        alts.append(z3.And(rec(a), rec(b)))
    return z3.Or(*alts) if alts else z3.BoolVal(False)


@assumed('(*sync/atomic.Value).Load', 'atomic.Value.Load returns the most recently stored value (sequentially consistent), nil if none')
def i_av_load(ex, fr, ins, name, args, st, k):
    p = args[0].x
    ex.check_nonnil(st, p, ins, 'atomic.Value')
    st.trace.append(('atomic', 'load', p.term(), ex.line(ins)))
    k(st, V('interface{}', ex.load_leaf(st, ex.ts.iface, p.ext(0))))


@assumed('(*sync/atomic.Value).Store', 'atomic.Value.Store(x) panics iff x is nil or of a different dynamic type than an earlier store; otherwise replaces the value atomically')
def i_av_store(ex, fr, ins, name, args, st, k):
    p = args[0].x
    ex.check_nonnil(st, p, ins, 'atomic.Value')
    x = args[1].x
    old = ex.load_leaf(st, ex.ts.iface, p.ext(0))
    g = z3.And(x != ex.ts.INIL, z3.Or(old == ex.ts.INIL, box_same_type(ex, old, x)))
    ex.oblige(st, 'safety/%s/atomic.Value.Store@L%s' % (ex.short_fn(), ex.line(ins)), g, tags=['SAFE'], kind='safety')
    st.pc.append(g)
    st.trace.append(('atomic', 'store', p.term(), ex.line(ins)))
    ex.store_leaf(st, ex.ts.iface, p.ext(0), x)
    k(st, None)


@assumed('runtime.SetFinalizer', 'runtime.SetFinalizer(obj, f) arranges for f(obj) to run some time after obj becomes unreachable (GC behaviour is not modelled)')
def i_setfinalizer(ex, fr, ins, name, args, st, k):
    # args are interface{}-boxed: (obj, func)
    obj, fn = args[0], args[1]
    fname = ''
    objaddr = None
    for tname, (ctor, accs, rec) in ex.ts.boxes.items():
        pass
    # recover the boxed pointer and the closure name syntactically
    t0 = obj.x
    if z3.is_app(t0) and t0.num_args() == 1:
        objaddr = t0.arg(0)
    t1 = fn.x
    if z3.is_app(t1) and t1.num_args() == 1:
        clo = getattr(ex, 'clos', {}).get(str(t1.arg(0)))
        if clo is not None:
            fname = clo.fn.rsplit('.', 1)[-1]
    st.trace.append(('finalizer', obj, fn, fname, objaddr))
    k(st, None)


@assumed('time.NewTicker', 'time.NewTicker(d) panics iff d <= 0; its channel delivers a tick every d (real time is not modelled)')
def i_newticker(ex, fr, ins, name, args, st, k):
    g = args[0].x > 0
    ex.oblige(st, 'safety/%s/NewTicker-positive@L%s' % (ex.short_fn(), ex.line(ins)), g, tags=['SAFE', 'C15'], kind='safety')
    st.pc.append(g)
    st.nalloc += 1
    p = PAddr(cid=-st.nalloc)
    st.trace.append(('ticker', args[0].x, p.term()))
    k(st, V(ins['type'], p))


@assumed('(*time.Ticker).Stop', 'Ticker.Stop has no effect visible to this library')
def i_tickerstop(ex, fr, ins, name, args, st, k):
    k(st, None)


@assumed('runtime.Gosched', 'runtime.Gosched() yields; no effect on memory')
def i_gosched(ex, fr, ins, name, args, st, k):
    k(st, None)


@assumed('math/bits.TrailingZeros64', 'bits.TrailingZeros64(x) = number of trailing zero bits of x, 64 for x == 0')
def i_tz64(ex, fr, ins, name, args, st, k):
    x = args[0].x
    res = z3.BitVecVal(64, 64)
    for i in range(63, -1, -1):
        res = z3.If(z3.Extract(i, i, x) == 1, z3.BitVecVal(i, 64), res)
    k(st, V('int', res))


# ---------------------------------------------------------------------------------------------------------------
# sync/atomic on words and pointers: sequentially consistent single-word operations.  Every use is recorded in the
# trace as an ('access', kind, address, line) event for the access discipline (C14).
# ---------------------------------------------------------------------------------------------------------------
def _atomic_access(ex, st, kind, p, ins, fr=None):
    reg = None
    try:
        reg = ins['call']['args'][0].get('n')
    except Exception:
        pass
    ex.on_access(st, kind, p, ins, fr, reg)


def _mk_atomic_load(sortname, tname):
    def f(ex, fr, ins, name, args, st, k):
        p = args[0].x
        ex.check_nonnil(st, p, ins, 'atomic-load')
        _atomic_access(ex, st, 'atomic-load', p, ins, fr)
        t = ins['type']
        v = ex.load(st, t, p)
        try:
            info = getattr(fr, 'addrinfo', {}).get(ins['call']['args'][0].get('n'))
            if info is not None and info[1] == 'table' and info[0] in ('Map', 'MapOf'):
                st.trace.append(('tblload', v))
        except Exception:
            pass
        k(st, v)
    return f


def _mk_atomic_store(tname):
    def f(ex, fr, ins, name, args, st, k):
        p = args[0].x
        ex.check_nonnil(st, p, ins, 'atomic-store')
        _atomic_access(ex, st, 'atomic-store', p, ins, fr)
        ex.on_store(fr, ins, st, args[0], args[1])
        ex.store(st, p, args[1])
        k(st, None)
    return f


def _atomic_add(ex, fr, ins, name, args, st, k):
    p = args[0].x
    ex.check_nonnil(st, p, ins, 'atomic-add')
    _atomic_access(ex, st, 'atomic-rmw', p, ins, fr)
    t = ins['type']
    old = ex.load(st, t, p)
    new = V(t, old.x + args[1].x)
    ex.store(st, p, new)
    k(st, new)


def _atomic_cas(ex, fr, ins, name, args, st, k):
    p = args[0].x
    ex.check_nonnil(st, p, ins, 'atomic-cas')
    _atomic_access(ex, st, 'atomic-rmw', p, ins, fr)
    et = ex.prog.under(args[0].t)[1]['elem']
    cur = ex.load(st, et, p)
    eq = ex.eq_vals(cur, V(et, args[1].x))
    # success
    st1 = st.copy()
    flag = None
    try:
        flag = getattr(fr, 'addrinfo', {}).get(ins['call']['args'][0].get('n'))
    except Exception:
        flag = None
    if ex.mode == 'tintf' and flag is not None and flag[1] == 'resizing' and ex.spec is not None and not getattr(ex, 'dry', 0):
        # table-interference mode: winning the resize flag is where a resizer starts to own the table pointer; whatever
        # other goroutines did before is visible now (same environment step as at a lock acquisition)
        ex.cur_fr = fr
        ex.spec.lock_env_step(ex, st1, p)
        cur1 = ex.load(st1, et, p)
        eq = ex.eq_vals(cur1, V(et, args[1].x))
    st1.pc.append(eq)
    st1.pathid.append('casT')
    if flag is not None and flag[1] == 'resizing':
        st1.trace.append(('flagwon',))
    ex.store(st1, p, V(et, args[2].x))
    k(st1, V('bool', z3.BoolVal(True)))
    # failure: in sequential mode a CAS fails only if the value differs
    st2 = st.copy()
    st2.pc.append(z3.Not(eq))
    st2.pathid.append('casF')
    k(st2, V('bool', z3.BoolVal(False)))


for _n in ('LoadPointer', 'LoadUint64', 'LoadInt64', 'LoadUint32', 'LoadInt32', 'LoadUintptr'):
    ASSUMED['sync/atomic.' + _n] = 'sequentially consistent atomic load of one word'
    INTRINSICS['sync/atomic.' + _n] = _mk_atomic_load(None, _n)
for _n in ('StorePointer', 'StoreUint64', 'StoreInt64', 'StoreUint32', 'StoreInt32'):
    ASSUMED['sync/atomic.' + _n] = 'sequentially consistent atomic store of one word'
    INTRINSICS['sync/atomic.' + _n] = _mk_atomic_store(_n)
for _n in ('AddInt64', 'AddUint64', 'AddInt32'):
    ASSUMED['sync/atomic.' + _n] = 'atomic add, returns the new value'
    INTRINSICS['sync/atomic.' + _n] = _atomic_add
for _n in ('CompareAndSwapInt64', 'CompareAndSwapUint64', 'CompareAndSwapPointer', 'CompareAndSwapInt32'):
    ASSUMED['sync/atomic.' + _n] = 'atomic compare-and-swap; in sequential mode it fails only if the value differs'
    INTRINSICS['sync/atomic.' + _n] = _atomic_cas


# ---------------------------------------------------------------------------------------------------------------
# sync.Mutex / sync.Cond: lock-set discipline (C13).  The mutex is identified by its address.
# ---------------------------------------------------------------------------------------------------------------
@assumed('(*sync.Mutex).Lock', 'sync.Mutex.Lock blocks until the mutex is free, then holds it (mutual exclusion, happens-before as documented)')
def i_mutex_lock(ex, fr, ins, name, args, st, k):
    ex.acquire(st, args[0].x, ins, kind='mutex')
    k(st, None)


@assumed('(*sync.Mutex).Unlock', 'sync.Mutex.Unlock releases the mutex; a run-time error if it is not locked')
def i_mutex_unlock(ex, fr, ins, name, args, st, k):
    ex.release(st, args[0].x, ins, kind='mutex')
    k(st, None)


@assumed('(*sync.Cond).Wait', 'Cond.Wait atomically unlocks c.L, suspends until Broadcast/Signal, re-locks c.L; shared state may have changed')
def i_cond_wait(ex, fr, ins, name, args, st, k):
    st.trace.append(('condwait', args[0].x, ex.line(ins), tuple(getattr(st, 'held', ()))))
    ex.on_cond_wait(st, args[0].x, ins)
    k(st, None)


@assumed('(*sync.Cond).Broadcast', 'Cond.Broadcast wakes all goroutines waiting on the condition')
def i_cond_broadcast(ex, fr, ins, name, args, st, k):
    st.trace.append(('broadcast', args[0].x, ex.line(ins), tuple(getattr(st, 'held', ()))))
    k(st, None)


@assumed('sync.NewCond', 'sync.NewCond(l) returns a new Cond with c.L = l')
def i_newcond(ex, fr, ins, name, args, st, k):
    t = ins['type']
    et = ex.prog.under(t)[1]['elem']
    p = ex.alloc(st, et)
    k(st, V(t, p))


@assumed('fmt.Sprintf', 'fmt.Sprintf returns some string')
def i_sprintf(ex, fr, ins, name, args, st, k):
    k(st, V('string', ex.fresh('sprintf', Str)))


@assumed('github.com/fufuok/cache/internal/xsync.hashString',
         'hashString(s, seed) is a deterministic total function of (s, seed); hashString("", seed) == seed (unsafe/linkname body not verified)')
def i_hashstring(ex, fr, ins, name, args, st, k):
    f = z3.Function('memhash_str', Str, BV64, BV64)
    s_, seed = args[0].x, args[1].x
    k(st, V('uint64', z3.If(s_ == STR_EMPTY, seed, f(s_, seed))))


@assumed('github.com/fufuok/cache/internal/xsync.makeSeed', 'makeSeed returns an arbitrary 64-bit value')
def i_makeseed(ex, fr, ins, name, args, st, k):
    k(st, V('uint64', ex.fresh('seed', BV64)))
