#!/usr/bin/env python3
"""Pretty-print functions from the ssajson dump (debugging aid)."""
import json, sys


def vs(v):
    if v is None:
        return '_'
    k = v['k']
    if k == 'const':
        if v.get('nil'):
            return 'nil:' + short(v['t'])
        return '%r:%s' % (v['v'], short(v['t']))
    if k in ('reg', 'param', 'freevar'):
        return v['n']
    if k == 'func':
        return '@' + short(v['n'])
    if k == 'global':
        return 'G:' + short(v['n'])
    return k + ':' + str(v.get('n'))


def short(t):
    return t.replace('github.com/fufuok/cache/internal/xsync.', 'x.').replace('github.com/fufuok/cache.', 'c.')


def show(f):
    print('func', f['name'], 'params', [(p['n'], short(p['t'])) for p in f['params'] or []],
          'free', [(p['n'], short(p['t'])) for p in f['freevars'] or []], 'tps', f['typeparams'])
    for b in f.get('blocks') or []:
        print(' %d: %s preds=%s succs=%s' % (b['index'], b['comment'], b['preds'], b['succs']))
        for i in b['instrs']:
            op = i['op']
            if op == 'DebugRef':
                continue
            d = {k: v for k, v in i.items() if k not in ('op', 'pos', 'name', 'type')}
            parts = []
            for k, v in d.items():
                if isinstance(v, dict) and 'k' in v:
                    parts.append('%s=%s' % (k, vs(v)))
                elif isinstance(v, list) and v and isinstance(v[0], dict) and 'k' in v[0]:
                    parts.append('%s=[%s]' % (k, ','.join(vs(x) for x in v)))
                elif k == 'call':
                    c = v
                    if c['mode'] == 'invoke':
                        parts.append('invoke %s.%s(%s)' % (vs(c['recv']), c['method'], ','.join(vs(a) for a in c['args'])))
                    elif c['mode'] == 'static':
                        parts.append('%s(%s)' % (vs(c['fn']), ','.join(vs(a) for a in c['args'])))
                    elif c['mode'] == 'builtin':
                        parts.append('builtin %s(%s)' % (c['fn'], ','.join(vs(a) for a in c['args'])))
                    else:
                        parts.append('dyn %s(%s)' % (vs(c['fn']), ','.join(vs(a) for a in c['args'])))
                else:
                    parts.append('%s=%s' % (k, v))
            nm = i.get('name')
            line = i['pos'].split(':')[1] if i.get('pos') else ''
            print('    %-5s %-14s %s   %s  L%s' % ((nm + ' =') if nm and i.get('type') not in (None, '') else '', op, ' '.join(parts),
                                               short(i.get('type') or ''), line))


if __name__ == '__main__':
    d = json.load(open(sys.argv[1]))
    for n in sys.argv[2:]:
        for fn, f in d['functions'].items():
            if n in fn:
                show(f)
                print()
