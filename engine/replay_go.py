"""Replay of counterexamples on the real code.

Family `cache`: obligations of the Cache / CacheOf methods (sequential mode).  The solver's model supplies the concrete
situation (is the key present, its expiration instant, the clock, the TTL argument, the default TTL); the test builds
that situation through the real package (in-package test injected with `go test -overlay`, virtual clock by rewriting
time.Now()/time.Until() in scratch copies of the four cache source files), runs the method on the real cache and on an
executable copy of the TTL-map semantics (DESIGN.md 4.3) and compares results and the physical entry.
Nothing is written to /repo; scratch lives under $TMPDIR and is removed.
"""
import os
import re
import json
import shutil
import subprocess
import tempfile

ROOT = os.path.dirname(os.path.dirname(os.path.abspath(__file__)))

METHODS = ['Get', 'GetWithExpiration', 'GetWithTTL', 'GetOrSet', 'GetAndSet', 'GetAndRefresh', 'GetOrCompute', 'Compute',
           'GetAndDelete', 'Delete', 'Set', 'SetDefault', 'SetForever', 'DeleteExpired', 'get', 'expiration']

TEST = r'''
package cache

import (
	"encoding/json"
	"os"
	"reflect"
	"testing"
	"time"
)

var replayClock int64

func replayNow() time.Time                   { return time.Unix(0, replayClock) }
func replayUntil(t time.Time) time.Duration { return time.Duration(t.UnixNano() - replayClock) }

type rEntry struct {
	v interface{}
	e int64
}
type rModel struct {
	m map[string]rEntry
	D time.Duration
}

func (m *rModel) expAt(d time.Duration) int64 {
	if d == DefaultExpiration {
		d = m.D
	}
	if d > 0 {
		return replayClock + int64(d)
	}
	return 0
}
func (m *rModel) live(k string) (rEntry, bool) {
	x, ok := m.m[k]
	if !ok || (x.e > 0 && replayClock > x.e) {
		return rEntry{}, false
	}
	return x, true
}

type rInput struct {
	Method  string `json:"method"`
	Generic bool   `json:"generic"`
	Present bool   `json:"present"`
	E       int64  `json:"e"`
	Now     int64  `json:"now"`
	D       int64  `json:"d"`
	Def     int64  `json:"def"`
}

func TestReplayCacheObligation(t *testing.T) {
	var in rInput
	if err := json.Unmarshal([]byte(os.Getenv("REPLAY_INPUT")), &in); err != nil {
		t.Skip("no input")
	}
	const k = "k"
	d := time.Duration(in.D)
	replayClock = in.Now
	mod := &rModel{m: map[string]rEntry{}, D: time.Duration(in.Def)}
	var got, want []interface{}
	var physGot, physWant interface{}
	fn := func() interface{} { return "computed" }
	cf := func(old interface{}, loaded bool) (interface{}, bool) { return "c", false }
	call := func(get func(string) (interface{}, bool), getx func(string) (interface{}, time.Time, bool), gett func(string) (interface{}, time.Duration, bool),
		gos, gas func(string, interface{}, time.Duration) (interface{}, bool), gar func(string, time.Duration) (interface{}, bool),
		goc func(string, func() interface{}, time.Duration) (interface{}, bool),
		cmp func(string, func(interface{}, bool) (interface{}, bool), time.Duration) (interface{}, bool),
		gad func(string) (interface{}, bool), del func(string), set func(string, interface{}, time.Duration), delexp func()) []interface{} {
		switch in.Method {
		case "Get", "get":
			v, ok := get(k)
			return []interface{}{v, ok}
		case "GetWithExpiration":
			v, tm, ok := getx(k)
			return []interface{}{v, tm.IsZero(), tm.UnixNano() * b2i(!tm.IsZero()), ok}
		case "GetWithTTL":
			v, ttl, ok := gett(k)
			return []interface{}{v, ttl, ok}
		case "GetOrSet":
			v, ok := gos(k, "new", d)
			return []interface{}{v, ok}
		case "GetAndSet":
			v, ok := gas(k, "new", d)
			return []interface{}{v, ok}
		case "GetAndRefresh":
			v, ok := gar(k, d)
			return []interface{}{v, ok}
		case "GetOrCompute":
			v, ok := goc(k, fn, d)
			return []interface{}{v, ok}
		case "Compute":
			v, ok := cmp(k, cf, d)
			return []interface{}{v, ok}
		case "GetAndDelete":
			v, ok := gad(k)
			return []interface{}{v, ok}
		case "Delete":
			del(k)
		case "Set", "expiration":
			set(k, "new", d)
		case "SetDefault":
			set(k, "new", DefaultExpiration)
		case "SetForever":
			set(k, "new", NoExpiration)
		case "DeleteExpired":
			delexp()
		}
		return nil
	}
	// ---- the model (executable copy of the TTL-map semantics) ----
	if in.Present {
		mod.m[k] = rEntry{"old", in.E}
	}
	mget := func(k string) (interface{}, bool) {
		x, ok := mod.live(k)
		if !ok {
			delete(mod.m, k)
			return nil, false
		}
		return x.v, true
	}
	want = call(mget,
		func(k string) (interface{}, time.Time, bool) {
			x, ok := mod.live(k)
			if !ok {
				delete(mod.m, k)
				return nil, time.Time{}, false
			}
			if x.e > 0 {
				return x.v, time.Unix(0, x.e), true
			}
			return x.v, time.Time{}, true
		},
		func(k string) (interface{}, time.Duration, bool) {
			x, ok := mod.live(k)
			if !ok {
				delete(mod.m, k)
				return nil, 0, false
			}
			if x.e > 0 {
				return x.v, time.Duration(x.e - replayClock), true
			}
			return x.v, NoExpiration, true
		},
		func(k string, v interface{}, d time.Duration) (interface{}, bool) {
			if x, ok := mod.live(k); ok {
				return x.v, true
			}
			mod.m[k] = rEntry{v, mod.expAt(d)}
			return v, false
		},
		func(k string, v interface{}, d time.Duration) (interface{}, bool) {
			x, ok := mod.live(k)
			mod.m[k] = rEntry{v, mod.expAt(d)}
			if ok {
				return x.v, true
			}
			return v, false
		},
		func(k string, d time.Duration) (interface{}, bool) {
			x, ok := mod.live(k)
			if !ok {
				delete(mod.m, k)
				return nil, false
			}
			mod.m[k] = rEntry{x.v, mod.expAt(d)}
			return x.v, true
		},
		func(k string, f func() interface{}, d time.Duration) (interface{}, bool) {
			if x, ok := mod.live(k); ok {
				return x.v, true
			}
			v := f()
			mod.m[k] = rEntry{v, mod.expAt(d)}
			return v, false
		},
		func(k string, f func(interface{}, bool) (interface{}, bool), d time.Duration) (interface{}, bool) {
			x, ok := mod.live(k)
			var old interface{}
			if ok {
				old = x.v
			}
			nv, del := f(old, ok)
			if del {
				delete(mod.m, k)
				return old, false
			}
			mod.m[k] = rEntry{nv, mod.expAt(d)}
			return nv, true
		},
		func(k string) (interface{}, bool) {
			x, ok := mod.live(k)
			delete(mod.m, k)
			if !ok {
				return nil, false
			}
			return x.v, true
		},
		func(k string) { delete(mod.m, k) },
		func(k string, v interface{}, d time.Duration) { mod.m[k] = rEntry{v, mod.expAt(d)} },
		func() {
			for kk, x := range mod.m {
				if x.e > 0 && replayClock > x.e {
					delete(mod.m, kk)
				}
			}
		})
	if x, ok := mod.m[k]; ok {
		physWant = []interface{}{x.v, x.e}
	}
	// ---- the real code ----
	if !in.Generic {
		cw := newXsyncMap(Config{CleanupInterval: 0}).(*xsyncMapWrapper)
		c := cw.xsyncMap
		c.SetDefaultExpiration(time.Duration(in.Def))
		if in.Present {
			c.items.Store(k, item{v: "old", e: in.E})
		}
		got = call(c.Get, c.GetWithExpiration, c.GetWithTTL, c.GetOrSet, c.GetAndSet, c.GetAndRefresh, c.GetOrCompute, c.Compute,
			c.GetAndDelete, c.Delete, c.Set, c.DeleteExpired)
		if v, ok := c.items.Load(k); ok {
			physGot = []interface{}{v.(item).v, v.(item).e}
		}
	} else {
		cw := newXsyncMapOf[string, interface{}](ConfigOf[string, interface{}]{CleanupInterval: 0}).(*xsyncMapOfWrapper[string, interface{}])
		c := cw.xsyncMapOf
		c.SetDefaultExpiration(time.Duration(in.Def))
		if in.Present {
			c.items.Store(k, itemOf[interface{}]{v: "old", e: in.E})
		}
		got = call(c.Get, c.GetWithExpiration, c.GetWithTTL, c.GetOrSet, c.GetAndSet, c.GetAndRefresh, c.GetOrCompute, c.Compute,
			c.GetAndDelete, c.Delete, c.Set, c.DeleteExpired)
		if v, ok := c.items.Load(k); ok {
			physGot = []interface{}{v.v, v.e}
		}
	}
	if !reflect.DeepEqual(got, want) || !reflect.DeepEqual(physGot, physWant) {
		t.Fatalf("REPLAY-MISMATCH method=%s input=%+v: real code returned %v (entry %v), the TTL-map semantics give %v (entry %v)",
			in.Method, in, got, physGot, want, physWant)
	}
}

func b2i(b bool) int64 {
	if b {
		return 1
	}
	return 0
}
'''


def method_of(fn):
    m = re.match(r'^\(\*xsyncMap(Of\[K, V\])?\)\.(\w+)', fn or '')
    if not m:
        return None, None
    return m.group(2), bool(m.group(1))


def to_int(sv, signed=True):
    try:
        s = str(sv).strip()
        if s.startswith('#x'):
            v = int(s[2:], 16)
        else:
            v = int(s)
        if signed and v >= 1 << 63:
            v -= 1 << 64
        return v
    except Exception:
        return None


def try_replay(pid, v, repo):
    method, generic = method_of(v.get('fn'))
    probes = v.get('probes') or {}
    if method not in METHODS or v.get('mode') == 'intf':
        return False, {'family': None, 'note': 'no replay family for this obligation'}
    if v.get('status') != 'sat' or not probes:
        return False, {'family': 'cache', 'note': 'no model (solver status %s): nothing to replay' % v.get('status')}
    inp = {'method': method, 'generic': generic,
           'present': str(probes.get('present')) == 'True',
           'e': to_int(probes.get('e')) or 0, 'now': to_int(probes.get('now')) or 0,
           'd': to_int(probes.get('d')) if probes.get('d') is not None else 0, 'def': to_int(probes.get('def')) or 0}
    if inp['d'] is None:
        inp['d'] = 0
    info = {'family': 'cache', 'input': inp}
    tmp = tempfile.mkdtemp(prefix='govc_replay_')
    try:
        ov = {'Replace': {}}
        for fn in ('item.go', 'itemof.go', 'xsync_map.go', 'xsync_mapof.go'):
            src = open(os.path.join(repo, fn)).read()
            src = src.replace('time.Now()', 'replayNow()').replace('time.Until(', 'replayUntil(')
            if 'time.' not in src.split('import', 1)[1].split(')', 1)[1] and '"time"' in src:
                # keep the import used
                src += '\nvar _ = time.Second\n'
            dst = os.path.join(tmp, fn)
            open(dst, 'w').write(src)
            ov['Replace'][os.path.join(repo, fn)] = dst
        tfile = os.path.join(tmp, 'zz_replay_test.go')
        open(tfile, 'w').write('//go:build go1.18\n' + TEST)
        ov['Replace'][os.path.join(repo, 'zz_replay_test.go')] = tfile
        ovf = os.path.join(tmp, 'ov.json')
        json.dump(ov, open(ovf, 'w'))
        env = dict(os.environ)
        env.update(GOFLAGS='-mod=mod', GOPROXY='off', GOSUMDB='off', GOTOOLCHAIN='local', REPLAY_INPUT=json.dumps(inp))
        p = subprocess.run(['go', 'test', '-overlay', ovf, '-vet=off', '-count=1', '-timeout', '60s', '-run', 'TestReplayCacheObligation', '.'],
                           cwd=repo, env=env, capture_output=True, timeout=300)
        out = (p.stdout.decode(errors='replace') + p.stderr.decode(errors='replace'))[-3000:]
        info['go_test_exit'] = p.returncode
        info['output'] = out
        confirmed = p.returncode != 0 and 'REPLAY-MISMATCH' in out
        info['confirmed'] = confirmed
        return confirmed, info
    except Exception as e:
        info['error'] = str(e)
        return False, info
    finally:
        shutil.rmtree(tmp, ignore_errors=True)
