#!/usr/bin/env python3
"""check: decide one property on /repo's current working tree.

  check <PID> [--tier quick|thorough] [--replay <file>] [--write-baseline]

Exit 0: every obligation serving the property was discharged (known findings are printed as
KNOWN-FINDING lines).  Exit 1: a `VIOLATION property=<id> replay=<path>` line per violated obligation.
Exit 2: the machinery itself could not run (does not compile, contract file broken, vacuity guard).
"""
import sys
import os
import re
import time
import json
import argparse
import tempfile
import shutil
import multiprocessing as mp
import traceback

sys.path.insert(0, os.path.dirname(os.path.abspath(__file__)))
ROOT = os.path.dirname(os.path.dirname(os.path.abspath(__file__)))

import ir as IR
import propmap

SUPPORT = {'AUX', 'SAFE', 'FRAME'}

_G = {}


def stable(name):
    name = re.sub(r'#[0-9A-Za-z.]*$', '', name)
    name = re.sub(r'@L\d+', '', name)
    return name


SITE_HEADS = {'pre', 'nil-fieldaddr', 'index', 'nil-func', 'access', 'typeassert', 'nil-load', 'nil-store', 'shift-count', 'atomic',
              'callback', 'lock', 'unlock', 'makeslice', 'call', 'store', 'div-zero', 'nil-atomic-load', 'nil-atomic-store',
              'condwait', 'NewTicker-positive', 'panic', 'slice', 'nil-call', 'reentry'}


def site_derived(stable_name):
    parts = stable_name.split('/', 2)
    if len(parts) < 3:
        return False
    last = re.sub(r'^(tintf|intf)\.', '', parts[2])
    return re.split(r'[.@]', last)[0] in SITE_HEADS


_EXCACHE = {}


def get_ex(target, mode, tier):
    """Symbolic execution of one contract (cached per worker process)."""
    key = (target, mode)
    if key not in _EXCACHE:
        from spec import Spec
        import verify
        prog = _G['prog']
        spec = _G.get('spec')
        if spec is None:
            spec = _G['spec'] = Spec(prog)
        if target.startswith('lemma:'):
            lem = [l for l in spec.sf.lemmas if (l.label or str(l.line)) == target[6:]][0]
            ex = verify.verify_lemma(prog, spec, lem, {'tier': tier})
            con = lem
            con.fn = 'lemma:' + target[6:]
        else:
            con = spec.sf.contracts[target]
            ex = verify.run_contract(prog, spec, con, mode, {'tier': tier})
        _EXCACHE[key] = (ex, spec, con)
    return _EXCACHE[key]


def phase1(task):
    """Generate the obligations of one (contract, mode); run the vacuity covers."""
    target, mode, timeout, tier = task
    import verify
    from symex import EngineError
    out = {'target': target, 'mode': mode, 'fn': None, 'n': 0, 'error': None, 'paths': 0, 'covers': [], 'wall': 0.0,
           'bounded': 0, 'results': [], 'names': []}
    t0 = time.time()
    try:
        ex, spec, con = get_ex(target, mode, tier)
        out['fn'] = con.fn
        out['n'] = len(ex.obls)
        out['names'] = [stable(o.name) for o in ex.obls]
        out['paths'] = ex.paths
        out['bounded'] = getattr(ex, 'bounded_cut', 0)
        out['covers'] = verify.check_covers(ex, timeout)
    except EngineError as e:
        out['error'] = 'EngineError: %s' % e
    except Exception as e:
        out['error'] = 'Exception: %s\n%s' % (e, traceback.format_exc()[-1500:])
    out['wall'] = time.time() - t0
    return out


def discharge_idxs(target, mode, timeout, tier, idxs):
    import verify
    prog = _G['prog']
    ex, spec, con = get_ex(target, mode, tier)
    obls = [ex.obls[i] for i in idxs]
    # one undecided instance makes its family undecided: the other instances of that family are not attempted in this
    # pass (the retry pass takes one instance per family, and all of them if that one is discharged after all)
    res = []
    undecided = set()
    for o in obls:
        fam = stable(o.name)
        if fam in undecided:
            r = verify.Result(o)
            r.status = 'unknown'
            r.solver = 'skipped'
            r.reason = 'another instance of this obligation family is already undecided'
            res.append(r)
            continue
        r = verify.discharge([o], timeout, hints=_G.get('hints'))[0]
        if r.status != 'unsat':
            undecided.add(fam)
        res.append(r)
    res_out = []
    for ix, o, r in zip(idxs, obls, res):
        d = {'name': r.name, 'stable': stable(r.name), 'tags': r.tags, 'status': r.status, 'time': round(r.time, 4),
             'solver': r.solver, 'where': r.where, 'kind': r.kind, 'fn': prog.short(r.fn), 'mode': mode,
             'reason': r.reason, 'idx': ix}
        if r.status != 'unsat':
            d['model'] = r.model
            d['probes'] = verify.probe_model(ex, spec, con, o) if r.status == 'sat' else {}
            d['size'] = len(o.assumptions)
        res_out.append(d)
    return res_out


def phase12(task):
    """Generate the obligations of one (contract, mode), run the vacuity covers, then discharge the obligations: in this
    process when there are few, in forked children (which inherit the symbolic execution instead of repeating it) when
    there are many."""
    target, mode, timeout, tier, skip, fan, pid = task
    out = phase1((target, mode, timeout, tier))
    if out['error']:
        return out
    ex = get_ex(target, mode, tier)[0]
    # obligations that serve other properties only are not this check's business
    idxs = [i for i in range(out['n']) if out['names'][i] not in skip and (pid is None or propmap.counts_for(pid, ex.obls[i].tags))]
    only = os.environ.get('GOVC_ONLY')
    if only:
        idxs = [i for i in idxs if re.search(only, ex.obls[i].name)]
    out['skipped'] = sorted(set(nm for nm in out['names'] if nm in skip))
    k = min(fan, max(1, len(idxs) // 24))
    t0 = time.time()
    # thorough tier: the families that are not claimed (they never passed) are tried again, with the short limit
    extra_idxs = []
    if tier == 'thorough' and task[4] == set() and _G.get('unclaimed'):
        unc = _G['unclaimed']
        extra_idxs = [i for i in idxs if out['names'][i] in unc]
        idxs = [i for i in idxs if out['names'][i] not in unc]
    try:
        if extra_idxs:
            out['results'] += discharge_idxs(target, mode, min(timeout, 8000), tier, extra_idxs[:40])
        if k <= 1:
            out['results'] += discharge_idxs(target, mode, timeout, tier, idxs)
        else:
            tmpd = tempfile.mkdtemp(prefix='govc_fan_')
            pids = []
            for j in range(k):
                pid_ = os.fork()
                if pid_ == 0:
                    code = 0
                    try:
                        r = {'results': discharge_idxs(target, mode, timeout, tier, idxs[j::k]), 'error': None}
                    except BaseException as e:
                        r = {'results': [], 'error': 'Exception: %s\n%s' % (e, traceback.format_exc()[-1500:])}
                        code = 1
                    try:
                        with open(os.path.join(tmpd, '%d.json' % j), 'w') as f:
                            json.dump(r, f)
                    finally:
                        os._exit(code)
                pids.append(pid_)
            for p_ in pids:
                os.waitpid(p_, 0)
            for j in range(k):
                fp = os.path.join(tmpd, '%d.json' % j)
                if not os.path.exists(fp):
                    out['error'] = 'discharge child %d of %s died without a result' % (j, target)
                    continue
                r = json.load(open(fp))
                out['results'] += r['results']
                if r['error'] and not out['error']:
                    out['error'] = r['error']
            shutil.rmtree(tmpd, ignore_errors=True)
    except Exception as e:
        out['error'] = 'Exception: %s\n%s' % (e, traceback.format_exc()[-1500:])
    out['wall2'] = time.time() - t0
    return out


def phase2(job):
    """Discharge a slice of the obligations of one (contract, mode)."""
    target, mode, timeout, tier, idxs = job
    import verify
    prog = _G['prog']
    res_out = []
    try:
        ex, spec, con = get_ex(target, mode, tier)
        obls = [ex.obls[i] for i in idxs]
        res = verify.discharge(obls, timeout)
        for o, r in zip(obls, res):
            d = {'name': r.name, 'stable': stable(r.name), 'tags': r.tags, 'status': r.status, 'time': round(r.time, 4),
                 'solver': r.solver, 'where': r.where, 'kind': r.kind, 'fn': prog.short(r.fn), 'mode': mode,
                 'reason': r.reason}
            if r.status != 'unsat':
                d['model'] = r.model
                d['probes'] = verify.probe_model(ex, spec, con, o) if r.status == 'sat' else {}
                d['size'] = len(o.assumptions)
            res_out.append(d)
    except Exception as e:
        return {'target': target, 'mode': mode, 'results': [], 'error': 'Exception: %s\n%s' % (e, traceback.format_exc()[-1500:])}
    return {'target': target, 'mode': mode, 'results': res_out, 'error': None}


def phase3(job):
    """Retry one obligation (by name) with a longer time limit."""
    target, mode, timeout, tier, name, ix = job
    import verify
    prog = _G['prog']
    try:
        ex, spec, con = get_ex(target, mode, tier)
        # obligations are identified by their position (several paths give obligations of the same name)
        obls = [ex.obls[ix]] if 0 <= ix < len(ex.obls) and ex.obls[ix].name == name else []
        res = verify.discharge(obls, timeout, hints=_G.get('hints'))
        out = []
        for o, r in zip(obls, res):
            out.append({'name': r.name, 'stable': stable(r.name), 'tags': r.tags, 'status': r.status, 'time': round(r.time, 4),
                        'solver': r.solver + '+retry', 'where': r.where, 'kind': r.kind, 'fn': prog.short(r.fn), 'mode': mode,
                        'reason': r.reason, 'model': r.model, 'probes': {}, 'idx': ix})
        return {'target': target, 'mode': mode, 'results': out, 'error': None}
    except Exception as e:
        return {'target': target, 'mode': mode, 'results': [], 'error': str(e)}


def load_known():
    p = os.path.join(ROOT, 'known_findings.json')
    if os.path.exists(p):
        return json.load(open(p))
    return {'findings': [], 'fixed': []}


def load_baseline():
    p = os.path.join(ROOT, 'baseline_obligations.json')
    if os.path.exists(p):
        return json.load(open(p))
    return {}


def main():
    ap = argparse.ArgumentParser()
    ap.add_argument('pid')
    ap.add_argument('--tier', default=os.environ.get('VERIF_TIER', 'quick'))
    ap.add_argument('--replay')
    ap.add_argument('--write-baseline', action='store_true')
    ap.add_argument('--repo', default=IR.REPO)
    ap.add_argument('--jobs', type=int, default=16)
    ap.add_argument('-v', action='store_true')
    a = ap.parse_args()
    pid = a.pid
    seed = int(os.environ.get('VERIF_SEED', '0') or 0)
    t0 = time.time()
    if a.replay:
        import replay
        sys.exit(replay.run_replay_file(a.replay, a.repo))
    try:
        prog = IR.load_program(a.repo)
    except RuntimeError as e:
        print('govc: cannot load /repo: %s' % e)
        sys.exit(2)
    _G['prog'] = prog
    # pure renamings of locals: the sequence of local names of a function (order of first appearance) is recorded with
    # the baseline; same length, different names at some positions, no clash => the old names become aliases
    try:
        recorded = load_baseline().get('!locals', {})
        ren = {}
        for fn_, f_ in prog.funcs.items():
            base_seq = recorded.get(fn_)
            if not base_seq:
                continue
            cur_seq = IR.local_names_seq(f_)
            if cur_seq != base_seq and len(cur_seq) == len(base_seq):
                rmap_ = {o_: n_ for o_, n_ in zip(base_seq, cur_seq) if o_ != n_}
                if rmap_ and not (set(rmap_.keys()) & set(cur_seq)) and not (set(rmap_.values()) & set(base_seq)):
                    ren[fn_] = rmap_
        prog.renamed_locals = ren
        if ren:
            print('note: locals renamed since the baseline (treated as aliases): %s' % '; '.join('%s: %s' % (prog.short(k), ', '.join('%s->%s' % kv for kv in v.items())) for k, v in ren.items())[:400])
    except Exception:
        prog.renamed_locals = {}
    from spec import Spec
    import specparse
    try:
        spec = Spec(prog)
    except specparse.ParseError as e:
        print('govc: contract file does not parse: %s' % e)
        sys.exit(2)
    if not spec.contract_files:
        print('govc: no contract files found (build tag verif)')
        sys.exit(2)
    timeout = 10000 if a.tier == 'quick' else 60000
    tasks, lemma_tasks = propmap.tasks_for(pid, spec, a.tier)
    violations = []   # (stable name, reason, replay dict)
    # functions under contract that disappeared or changed signature
    for con in spec.unbound:
        if propmap.contract_serves(con, pid, prog):
            violations.append({'stable': '%s/%s/binding' % (pid, con.target), 'status': 'unbound', 'fn': con.target,
                               'reason': 'function under contract no longer exists with this name/receiver',
                               'where': '%s:%d' % (con.file, con.line), 'model': None, 'probes': {}})
    _G['hints'] = load_baseline().get(pid + '!hints', {})
    _G['unclaimed'] = set(load_baseline().get(pid + '!unclaimed', [])) if not a.write_baseline else set()
    ctx = mp.get_context('fork')
    results = []
    skipped_unclaimed = set()
    skip = set()
    if a.tier == 'quick' and not a.write_baseline:
        # obligations that never passed (recorded when the baseline was written) are not part of the claim; the quick
        # tier does not spend solver time on them (the thorough tier tries them again)
        skip = set(load_baseline().get(pid + '!unclaimed', []))
    base_n = {}
    for nm in load_baseline().get(pid, []):
        parts = nm.split('/')
        if len(parts) > 1:
            base_n[parts[1]] = base_n.get(parts[1], 0) + 1
    # heavy functions first (by the number of obligations they had when the baseline was written)
    def weight(tm):
        try:
            return -base_n.get(prog.short(spec.sf.contracts[tm[0]].fn), 0)
        except Exception:
            return 0
    tasks = sorted(tasks, key=weight)
    with ctx.Pool(min(a.jobs, max(1, len(tasks)))) as pool:
        outs = pool.map(phase12, [(t, m, timeout, a.tier, skip, 10, pid) for (t, m) in tasks], chunksize=1)
        for o in outs:
            skipped_unclaimed.update(o.get('skipped', []))
            if a.v:
                slow = sorted(o['results'], key=lambda r: -r['time'])[:3]
                print('  %-50s %-4s n=%-4d symex+covers %.1fs discharge %.1fs  slowest: %s' % (o['target'][:50], o['mode'], o['n'], o['wall'], o.get('wall2', 0), ', '.join('%s %.1fs' % (r['stable'].split('/')[-1], r['time']) for r in slow)))
        outs2 = outs
        # an `unknown` (time-out) on an obligation that the baseline says is provable is retried alone with a longer
        # time limit before it is believed (solver time-outs under full CPU load must not raise alarms)
        base_names = set(load_baseline().get(pid, []))
        retry = []
        for o2 in outs2:
            for r in o2['results']:
                if r['status'] == 'unknown' and r['stable'] in base_names:
                    retry.append((o2['target'], o2['mode'], r['name'], r.get('idx', -1)))
        if retry:
            # few at a time: the first pass ran with every core busy, which is what made these time out.  One instance
            # per obligation family first; the other instances of a family only if that one is discharged (a family
            # with one instance that still fails is a violation already)
            fam = {}
            for (t, m, nm, ix) in retry:
                fam.setdefault(stable(nm), []).append((t, m, int(timeout * 2.5), a.tier, nm, ix))
            wave1 = [v[0] for v in fam.values()]
            outs3 = []
            with ctx.Pool(8) as pool3:
                outs3 = pool3.map(phase3, wave1[:60], chunksize=1)
                okfam = set()
                for o3 in outs3:
                    for r in o3['results']:
                        if r['status'] == 'unsat':
                            okfam.add(r['stable'])
                wave2 = [j for k, v in fam.items() if k in okfam for j in v[1:]]
                if wave2:
                    outs3 += pool3.map(phase3, wave2[:80], chunksize=1)
            fixed = {}
            for o3 in outs3:
                for r in o3['results']:
                    fixed[(o3['target'], o3['mode'], r['name'], r.get('idx', -1))] = r
            for o2 in outs2:
                for i, r in enumerate(o2['results']):
                    k3 = (o2['target'], o2['mode'], r['name'], r.get('idx', -2))
                    if k3 in fixed and fixed[k3]['status'] == 'unsat':
                        o2['results'][i] = fixed[k3]
    engine_errors = [o for o in outs if o['error']]
    if engine_errors:
        for o in engine_errors:
            print('govc: engine error in %s [%s]: %s' % (o['target'], o['mode'], o['error']))
    extra = propmap.extra_checks(pid, prog, spec, a.tier)      # structural / lemma obligations
    allres = []
    for o in outs:
        for r in o['results']:
            if propmap.counts_for(pid, r['tags']):
                allres.append(r)
    allres += extra
    known = load_known()
    kf = [f for f in known.get('findings', []) if f['property'] == pid]
    other_kf = set(f['obligation'] for f in known.get('findings', []) if f['property'] != pid)
    notes = []
    keep = []
    for r in allres:
        if r['stable'] in other_kf and pid not in r['tags'] and r['status'] != 'unsat':
            notes.append('note: %s is an open known finding of another property; not claimed for %s' % (r['stable'], pid))
            continue
        keep.append(r)
    allres = keep
    nobl = len(allres)
    by_stable = {}
    for r in allres:
        by_stable.setdefault(r['stable'], []).append(r)
    failed = {s: rs for s, rs in by_stable.items() if any(x['status'] != 'unsat' for x in rs)}
    discharged = sum(1 for r in allres if r['status'] == 'unsat')
    # vacuity
    vac = []
    for o in outs:
        for (name, status) in o['covers']:
            if status != 'sat':
                vac.append((name, status))
    baseline = load_baseline()
    if a.write_baseline:
        # a family is claimed only if every instance is discharged comfortably inside the quick budget: one that needed
        # the long retry, or more than 20 s, would turn solver time-outs under load into alarms on unchanged code
        slow = set()
        for s_, rs in by_stable.items():
            if any(x['status'] == 'unsat' and (x.get('time', 0) > 20 or '+retry' in (x.get('solver') or '')) for x in rs):
                slow.add(s_)
        slow = set(s_ for s_ in slow if not (set(by_stable[s_][0]['tags']) & {'C01', 'C02', 'C03', 'C04', 'C05', 'C06', 'C07', 'C08', 'C09', 'C10', 'C11', 'C13', 'C14', 'C15', 'C16'}))
        if slow:
            print('not claimed because slow (supporting obligations only): %s' % ', '.join(sorted(slow))[:600])
        baseline[pid] = sorted(s for s in by_stable if s not in failed and s not in slow)
        baseline[pid + '!unclaimed'] = sorted(set(s for s in failed if not any(f['obligation'] == s for f in kf)) | slow)
        hints = {}
        for s_, rs in by_stable.items():
            for x in rs:
                if x['status'] == 'unsat' and x.get('time', 0) > 3:
                    sv = x.get('solver', '')
                    if sv.startswith('cvc5') or sv.startswith('z3-4.8'):
                        hints[s_] = 'ext'
                    elif '+inst' in sv and s_ not in hints:
                        hints[s_] = 'inst'
        baseline[pid + '!hints'] = hints
        loc = baseline.get('!locals', {})
        for tgt_, con_ in spec.sf.contracts.items():
            if con_.fn and con_.fn in prog.funcs:
                loc[con_.fn] = IR.local_names_seq(prog.funcs[con_.fn])
                for fn2_ in prog.funcs:
                    if fn2_.startswith(con_.fn + '$'):
                        loc[fn2_] = IR.local_names_seq(prog.funcs[fn2_])
        baseline['!locals'] = loc
        json.dump(baseline, open(os.path.join(ROOT, 'baseline_obligations.json'), 'w'), indent=1, sort_keys=True)
        print('baseline for %s: %d obligations' % (pid, len(baseline[pid])))
        # what is not claimed is not part of the record of this run either (same as a quick run, which skips it)
        unc_ = set(baseline[pid + '!unclaimed'])
        allres = [r for r in allres if r['stable'] not in unc_]
        nobl = len(allres)
        discharged = sum(1 for r in allres if r['status'] == 'unsat')
    base = set(baseline.get(pid, []))
    exit_code = 0
    unclaimed = set()
    lines = []
    known_hit = []
    os.makedirs(os.path.join(ROOT, 'replays', pid), exist_ok=True)
    # a function whose contract no longer binds to the code (names used by its invariants disappeared, construct outside
    # the subset after an edit): every obligation of that function is gone; reported as a violation if they passed before
    err_fns = set()
    for o in engine_errors:
        short = o['target']
        try:
            cfn = spec.sf.contracts[o['target']].fn
            if cfn:
                short = prog.short(cfn)
        except Exception:
            pass
        had = [b for b in base if ('/' + short + '/') in b]
        if had:
            err_fns.add(short)
            violations.append({'stable': '%s/%s/contract-binding' % (pid, short), 'status': 'undecidable', 'fn': short,
                               'reason': 'contract no longer applies to the code: ' + (o['error'] or '')[:300],
                               'where': '', 'model': None, 'probes': {}, 'mode': o['mode']})
    if err_fns and all(o['target'] in err_fns for o in engine_errors):
        engine_errors = []
    # obligations of the baseline that are no longer generated
    if base and not engine_errors:
        for s in sorted(base - set(by_stable)):
            if any(('/' + fnn + '/') in s for fnn in err_fns):
                continue
            if site_derived(s):
                # generated by a program point (a call's precondition, a dereference, an access, a lock operation):
                # when the code no longer has that point there is nothing left to prove
                continue
            violations.append({'stable': s, 'status': 'missing', 'fn': s.split('/')[1] if '/' in s else '',
                               'reason': 'obligation of the committed baseline is no longer generated (contract clause or function binding lost)',
                               'where': '', 'model': None, 'probes': {}})
    for s, rs in sorted(failed.items()):
        bad = sorted([x for x in rs if x['status'] != 'unsat'], key=lambda x: (x.get('solver') == 'skipped', x['status'] != 'sat'))[0]
        is_known = any(f['obligation'] == s for f in kf)
        definite = (bad.get('kind') == 'discipline' and bad['status'] == 'sat'
                    and s not in set(baseline.get(pid + '!unclaimed', [])))
        if base and s not in base and not a.write_baseline and not is_known and not definite:
            # never passed on the committed baseline: a hole in the machinery, not a verdict about the code
            lines.append('UNDECIDED (not in baseline, not claimed): %s [%s]' % (s, bad['status']))
            unclaimed.add(s)
            continue
        violations.append(dict(bad, stable=s))
    if unclaimed:
        # obligations that never passed are not part of the claim: they are reported, not counted
        nun = sum(len(by_stable[u]) for u in unclaimed)
        nobl -= nun
        discharged -= sum(1 for u in unclaimed for r in by_stable[u] if r['status'] == 'unsat')
    import replay
    nviol = 0
    for v in violations:
        match = [f for f in kf if f['obligation'] == v['stable'] and replay.finding_matches(f, v)]
        if match:
            known_hit.append((match[0], v))
            continue
        path, confirmed = replay.write_and_run(pid, v, a.repo)
        nviol += 1
        tail = '' if confirmed else ' no-failing-input-found'
        lines.append('VIOLATION property=%s replay=%s%s' % (pid, path, tail))
        lines.append('  obligation %s status=%s fn=%s at %s %s' % (v['stable'], v['status'], v.get('fn', ''), v.get('where', ''),
                                                                   (v.get('reason') or '')[:200]))
        exit_code = 1
    for f, v in known_hit:
        print('KNOWN-FINDING: property=%s %s (%s)' % (pid, f['what'], f['obligation']))
    for l in sorted(set(notes)) + lines:
        print(l)
    if skipped_unclaimed:
        print('not claimed (never discharged; skipped in the quick tier): %d obligation families, e.g. %s' % (
            len(skipped_unclaimed), ', '.join(sorted(skipped_unclaimed)[:3])))
    if engine_errors or (vac and not violations):
        for n, s in vac:
            print('govc: vacuity guard: %s is %s' % (n, s))
        if exit_code == 0:
            exit_code = 2
    if nobl == 0 and exit_code == 0:
        print('govc: no obligations generated for %s' % pid)
        exit_code = 2
    wall = time.time() - t0
    if os.path.realpath(a.repo) == os.path.realpath(IR.REPO) and not os.environ.get('GOVC_ONLY'):
        # evidence describes runs on /repo's working tree only (scratch copies used by the seed tools leave it alone)
        propmap.write_evidence(pid, a.tier, seed, prog, spec, outs, allres, discharged, nobl, nviol, known_hit, wall, extra, vac)
    print('%s: %d obligations, %d discharged, %d functions under contract, %d violations, %d known findings, %.1fs' % (
        pid, nobl, discharged, len(set(o['fn'] for o in outs)), nviol, len(known_hit), wall))
    sys.exit(exit_code)


if __name__ == '__main__':
    main()
