#!/usr/bin/env python3
"""govc: command-line driver (development entry point)."""
import sys, os, time, argparse, json
sys.path.insert(0, os.path.dirname(os.path.abspath(__file__)))
import ir as IR
from spec import Spec
import verify
from symex import EngineError


def main():
    ap = argparse.ArgumentParser()
    ap.add_argument('--fn', action='append', default=[])
    ap.add_argument('--repo', default=IR.REPO)
    ap.add_argument('--timeout', type=int, default=10000)
    ap.add_argument('-v', action='store_true')
    ap.add_argument('--mode', default='seq')
    a = ap.parse_args()
    t0 = time.time()
    prog = IR.load_program(a.repo)
    spec = Spec(prog)
    print('loaded %d functions, %d contracts (%d unbound) in %.1fs' % (len(prog.funcs), len(spec.sf.contracts), len(spec.unbound), time.time() - t0))
    for lem in spec.sf.lemmas:
        if a.fn and not any(x in ('lemma:' + (lem.label or '')) for x in a.fn):
            continue
        t1 = time.time()
        try:
            ex = verify.verify_lemma(prog, spec, lem)
        except EngineError as e:
            print('ENGINE-ERROR lemma', lem.label, e)
            continue
        res = verify.discharge(ex.obls, a.timeout)
        for r in res:
            print('   %-7s %-70s %.2fs %s %s' % (r.status, r.name, r.time, r.solver, (r.reason or '')[:80]))
    for con in spec.sf.contracts.values():
        if a.fn and not any(x in con.target for x in a.fn):
            continue
        if con.fn is None:
            print('UNBOUND', con.target)
            continue
        t1 = time.time()
        try:
            ex = verify.verify_function(prog, spec, con, mode=a.mode)
        except EngineError as e:
            print('ENGINE-ERROR', con.target, e)
            continue
        res = verify.discharge(ex.obls, a.timeout)
        bad = [r for r in res if r.status != 'unsat']
        print('%-40s paths=%d obligations=%d discharged=%d %.2fs' % (con.target, ex.paths, len(res), len(res) - len(bad), time.time() - t1))
        for r in res:
            if a.v or r.status != 'unsat':
                print('   %-7s %-70s %.2fs %s %s' % (r.status, r.name, r.time, r.solver, (r.reason or '')[:80]))
                if r.status == 'sat' and r.model:
                    for kk, vv in sorted(r.model.items())[:40]:
                        print('        %s = %s' % (kk, vv))


if __name__ == '__main__':
    main()
