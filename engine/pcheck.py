#!/usr/bin/env python3
"""pcheck: parallel development driver: verify the contracts whose target contains one of --fn (all obligations, in a pool)."""
import sys, os, time, argparse, multiprocessing as mp
sys.path.insert(0, os.path.dirname(os.path.abspath(__file__)))
import ir as IR
import check as CK


def main():
    ap = argparse.ArgumentParser()
    ap.add_argument('--fn', action='append', default=[])
    ap.add_argument('--mode', default='seq')
    ap.add_argument('--repo', default=IR.REPO)
    ap.add_argument('--timeout', type=int, default=10000)
    ap.add_argument('-v', action='store_true')
    a = ap.parse_args()
    t0 = time.time()
    prog = IR.load_program(a.repo)
    CK._G['prog'] = prog
    from spec import Spec
    spec = Spec(prog)
    tasks = [(t, a.mode) for t in spec.sf.contracts if any(x in t for x in a.fn) and spec.sf.contracts[t].fn]
    tasks += [('lemma:' + (l.label or str(l.line)), 'seq') for l in spec.sf.lemmas if any(x in ('lemma:' + (l.label or '')) for x in a.fn)]
    ctx = mp.get_context('fork')
    with ctx.Pool(16) as pool:
        outs = pool.map(CK.phase12, [(t, m, a.timeout, 'quick', set(), 12, None) for (t, m) in tasks], chunksize=1)
    outs2 = [{'target': o['target'], 'error': o['error'], 'results': o['results']} for o in outs]
    by = {}
    for o2 in outs2:
        if o2['error']:
            print('ERROR', o2['target'], o2['error'][:300])
        by.setdefault(o2['target'], []).extend(o2['results'])
    for o in outs:
        rs = by.get(o['target'], [])
        bad = [r for r in rs if r['status'] != 'unsat']
        print('%-40s paths=%d obligations=%d discharged=%d covers=%s' % (o['target'], o['paths'], len(rs), len(rs) - len(bad),
              [c for c in o['covers'] if c[1] != 'sat']))
        seen = set()
        for r in rs:
            if r['status'] != 'unsat' or a.v:
                key = (r['stable'], r['status'])
                if key in seen and not a.v:
                    continue
                seen.add(key)
                print('   %-7s %-80s %.1fs %s %s' % (r['status'], r['name'], r['time'], r['solver'], (r.get('reason') or '')[:60]))
    print('wall %.1fs' % (time.time() - t0))


if __name__ == '__main__':
    main()
