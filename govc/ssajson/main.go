// ssajson loads Go packages (with build tags), builds go/ssa for them and dumps the SSA of
// every function (including anonymous functions and generic bodies, kept generic) together with
// the type table as JSON on stdout. It is the front end of /verif's VC generator: the verified
// text is whatever is in the working tree at the time of the call; nothing is cached.
package main

import (
	"encoding/json"
	"flag"
	"fmt"
	"go/ast"
	"go/constant"
	"go/token"
	"go/types"
	"os"
	"sort"
	"strings"

	"golang.org/x/tools/go/packages"
	"golang.org/x/tools/go/ssa"
	"golang.org/x/tools/go/ssa/ssautil"
)

type J = map[string]interface{}

var (
	typeTab  = map[string]J{}
	typeBusy = map[string]bool{}
	fset     *token.FileSet
)

func qual(p *types.Package) string { return p.Path() }

func tname(t types.Type) string {
	if t == nil {
		return ""
	}
	s := types.TypeString(t, qual)
	internType(s, t)
	return s
}

func internType(s string, t types.Type) {
	if _, ok := typeTab[s]; ok || typeBusy[s] {
		return
	}
	typeBusy[s] = true
	j := J{}
	switch x := t.(type) {
	case *types.Basic:
		j["kind"] = "basic"
		j["name"] = x.Name()
		j["info"] = int(x.Info())
	case *types.Pointer:
		j["kind"] = "pointer"
		j["elem"] = tname(x.Elem())
	case *types.Named:
		j["kind"] = "named"
		j["name"] = x.Obj().Name()
		if x.Obj().Pkg() != nil {
			j["pkg"] = x.Obj().Pkg().Path()
		}
		j["underlying"] = tname(x.Underlying())
		var targs []string
		if ta := x.TypeArgs(); ta != nil {
			for i := 0; i < ta.Len(); i++ {
				targs = append(targs, tname(ta.At(i)))
			}
		}
		j["targs"] = targs
		j["origin"] = x.Origin().Obj().Name()
	case *types.Alias:
		j["kind"] = "alias"
		j["actual"] = tname(types.Unalias(x))
	case *types.Struct:
		j["kind"] = "struct"
		var fs []J
		for i := 0; i < x.NumFields(); i++ {
			f := x.Field(i)
			fs = append(fs, J{"name": f.Name(), "type": tname(f.Type()), "embedded": f.Embedded()})
		}
		j["fields"] = fs
	case *types.Slice:
		j["kind"] = "slice"
		j["elem"] = tname(x.Elem())
	case *types.Array:
		j["kind"] = "array"
		j["elem"] = tname(x.Elem())
		j["len"] = x.Len()
	case *types.Map:
		j["kind"] = "map"
		j["key"] = tname(x.Key())
		j["elem"] = tname(x.Elem())
	case *types.Chan:
		j["kind"] = "chan"
		j["elem"] = tname(x.Elem())
	case *types.Signature:
		j["kind"] = "signature"
		var ps, rs []string
		for i := 0; i < x.Params().Len(); i++ {
			ps = append(ps, tname(x.Params().At(i).Type()))
		}
		for i := 0; i < x.Results().Len(); i++ {
			rs = append(rs, tname(x.Results().At(i).Type()))
		}
		j["params"] = ps
		j["results"] = rs
		j["variadic"] = x.Variadic()
	case *types.Tuple:
		j["kind"] = "tuple"
		var es []string
		for i := 0; i < x.Len(); i++ {
			es = append(es, tname(x.At(i).Type()))
		}
		j["elems"] = es
	case *types.Interface:
		j["kind"] = "interface"
		var ms []J
		for i := 0; i < x.NumMethods(); i++ {
			m := x.Method(i)
			ms = append(ms, J{"name": m.Name(), "type": tname(m.Type())})
		}
		j["methods"] = ms
		j["empty"] = x.NumMethods() == 0 && x.NumEmbeddeds() == 0
	case *types.TypeParam:
		j["kind"] = "typeparam"
		j["name"] = x.Obj().Name()
		j["index"] = x.Index()
	default:
		j["kind"] = "unknown"
		j["go"] = fmt.Sprintf("%T", t)
	}
	typeTab[s] = j
}

func pos(p token.Pos) string {
	if !p.IsValid() {
		return ""
	}
	pp := fset.Position(p)
	return fmt.Sprintf("%s:%d:%d", pp.Filename, pp.Line, pp.Column)
}

func funcName(f *ssa.Function) string {
	// Stable, unique name: ssa's String() gives e.g. "(*pkg.T).M", "pkg.F", "pkg.F$1".
	return f.String()
}

func val(v ssa.Value) J {
	if v == nil {
		return nil
	}
	switch x := v.(type) {
	case *ssa.Const:
		j := J{"k": "const", "t": tname(x.Type())}
		if x.Value == nil {
			j["nil"] = true
		} else {
			switch x.Value.Kind() {
			case constant.Bool:
				j["v"] = constant.BoolVal(x.Value)
				j["ck"] = "bool"
			case constant.String:
				j["v"] = constant.StringVal(x.Value)
				j["ck"] = "string"
			case constant.Int:
				j["v"] = x.Value.ExactString()
				j["ck"] = "int"
			case constant.Float:
				j["v"] = x.Value.ExactString()
				j["ck"] = "float"
			default:
				j["v"] = x.Value.ExactString()
				j["ck"] = "other"
			}
		}
		return j
	case *ssa.Parameter:
		return J{"k": "param", "n": x.Name(), "t": tname(x.Type())}
	case *ssa.FreeVar:
		return J{"k": "freevar", "n": x.Name(), "t": tname(x.Type())}
	case *ssa.Function:
		j := J{"k": "func", "n": funcName(x), "t": tname(x.Type())}
		if x.Origin() != nil {
			j["origin"] = funcName(x.Origin())
		}
		return j
	case *ssa.Global:
		return J{"k": "global", "n": x.String(), "t": tname(x.Type())}
	case *ssa.Builtin:
		return J{"k": "builtin", "n": x.Name(), "t": tname(x.Type())}
	default:
		return J{"k": "reg", "n": v.Name(), "t": tname(v.Type())}
	}
}

func vals(vs []ssa.Value) []J {
	out := make([]J, 0, len(vs))
	for _, v := range vs {
		out = append(out, val(v))
	}
	return out
}

func callCommon(c *ssa.CallCommon) J {
	j := J{"args": vals(c.Args)}
	if c.IsInvoke() {
		j["mode"] = "invoke"
		j["recv"] = val(c.Value)
		j["method"] = c.Method.Name()
		j["iface"] = tname(c.Value.Type())
		j["msig"] = tname(c.Method.Type())
	} else {
		switch f := c.Value.(type) {
		case *ssa.Function:
			j["mode"] = "static"
			j["fn"] = val(f)
			if f.Pkg != nil {
				j["pkg"] = f.Pkg.Pkg.Path()
			} else if f.Origin() != nil && f.Origin().Pkg != nil {
				j["pkg"] = f.Origin().Pkg.Pkg.Path()
			}
			if f.Signature.Recv() != nil {
				j["recvtype"] = tname(f.Signature.Recv().Type())
			}
			var targs []string
			for _, ta := range f.TypeArgs() {
				targs = append(targs, tname(ta))
			}
			j["targs"] = targs
		case *ssa.Builtin:
			j["mode"] = "builtin"
			j["fn"] = f.Name()
		default:
			j["mode"] = "dynamic"
			j["fn"] = val(c.Value)
		}
	}
	j["sig"] = tname(c.Signature())
	return j
}

func instr(in ssa.Instruction) J {
	j := J{"pos": pos(in.Pos())}
	if v, ok := in.(ssa.Value); ok {
		j["name"] = v.Name()
		j["type"] = tname(v.Type())
	}
	switch x := in.(type) {
	case *ssa.Alloc:
		j["op"] = "Alloc"
		j["heap"] = x.Heap
		j["comment"] = x.Comment
		j["elem"] = tname(x.Type().(*types.Pointer).Elem())
	case *ssa.BinOp:
		j["op"] = "BinOp"
		j["tok"] = x.Op.String()
		j["x"] = val(x.X)
		j["y"] = val(x.Y)
	case *ssa.UnOp:
		j["op"] = "UnOp"
		j["tok"] = x.Op.String()
		j["x"] = val(x.X)
		j["commaok"] = x.CommaOk
	case *ssa.Call:
		j["op"] = "Call"
		j["call"] = callCommon(&x.Call)
	case *ssa.Go:
		j["op"] = "Go"
		j["call"] = callCommon(&x.Call)
	case *ssa.Defer:
		j["op"] = "Defer"
		j["call"] = callCommon(&x.Call)
	case *ssa.RunDefers:
		j["op"] = "RunDefers"
	case *ssa.ChangeType:
		j["op"] = "ChangeType"
		j["x"] = val(x.X)
	case *ssa.Convert:
		j["op"] = "Convert"
		j["x"] = val(x.X)
	case *ssa.MultiConvert:
		j["op"] = "MultiConvert"
		j["x"] = val(x.X)
	case *ssa.ChangeInterface:
		j["op"] = "ChangeInterface"
		j["x"] = val(x.X)
	case *ssa.MakeInterface:
		j["op"] = "MakeInterface"
		j["x"] = val(x.X)
	case *ssa.MakeClosure:
		j["op"] = "MakeClosure"
		j["fn"] = val(x.Fn)
		j["bindings"] = vals(x.Bindings)
	case *ssa.MakeSlice:
		j["op"] = "MakeSlice"
		j["len"] = val(x.Len)
		j["cap"] = val(x.Cap)
	case *ssa.MakeMap:
		j["op"] = "MakeMap"
		j["reserve"] = val(x.Reserve)
	case *ssa.MakeChan:
		j["op"] = "MakeChan"
		j["size"] = val(x.Size)
	case *ssa.FieldAddr:
		j["op"] = "FieldAddr"
		j["x"] = val(x.X)
		j["field"] = x.Field
	case *ssa.Field:
		j["op"] = "Field"
		j["x"] = val(x.X)
		j["field"] = x.Field
	case *ssa.IndexAddr:
		j["op"] = "IndexAddr"
		j["x"] = val(x.X)
		j["index"] = val(x.Index)
	case *ssa.Index:
		j["op"] = "Index"
		j["x"] = val(x.X)
		j["index"] = val(x.Index)
	case *ssa.Slice:
		j["op"] = "Slice"
		j["x"] = val(x.X)
		j["low"] = val(x.Low)
		j["high"] = val(x.High)
		j["max"] = val(x.Max)
	case *ssa.Lookup:
		j["op"] = "Lookup"
		j["x"] = val(x.X)
		j["index"] = val(x.Index)
		j["commaok"] = x.CommaOk
	case *ssa.MapUpdate:
		j["op"] = "MapUpdate"
		j["map"] = val(x.Map)
		j["key"] = val(x.Key)
		j["value"] = val(x.Value)
	case *ssa.Extract:
		j["op"] = "Extract"
		j["tuple"] = val(x.Tuple)
		j["index"] = x.Index
	case *ssa.TypeAssert:
		j["op"] = "TypeAssert"
		j["x"] = val(x.X)
		j["asserted"] = tname(x.AssertedType)
		j["commaok"] = x.CommaOk
	case *ssa.Phi:
		j["op"] = "Phi"
		j["edges"] = vals(x.Edges)
		j["comment"] = x.Comment
	case *ssa.If:
		j["op"] = "If"
		j["cond"] = val(x.Cond)
	case *ssa.Jump:
		j["op"] = "Jump"
	case *ssa.Return:
		j["op"] = "Return"
		j["results"] = vals(x.Results)
	case *ssa.Store:
		j["op"] = "Store"
		j["addr"] = val(x.Addr)
		j["val"] = val(x.Val)
	case *ssa.Panic:
		j["op"] = "Panic"
		j["x"] = val(x.X)
	case *ssa.Select:
		j["op"] = "Select"
		j["blocking"] = x.Blocking
		var st []J
		for _, s := range x.States {
			st = append(st, J{"dir": int(s.Dir), "chan": val(s.Chan), "send": val(s.Send)})
		}
		j["states"] = st
	case *ssa.Send:
		j["op"] = "Send"
		j["chan"] = val(x.Chan)
		j["x"] = val(x.X)
	case *ssa.Range:
		j["op"] = "Range"
		j["x"] = val(x.X)
	case *ssa.Next:
		j["op"] = "Next"
		j["iter"] = val(x.Iter)
		j["isstring"] = x.IsString
	case *ssa.DebugRef:
		j["op"] = "DebugRef"
		j["x"] = val(x.X)
		j["isaddr"] = x.IsAddr
		if id, ok := x.Expr.(*ast.Ident); ok {
			j["ident"] = id.Name
		}
	case *ssa.SliceToArrayPointer:
		j["op"] = "SliceToArrayPointer"
		j["x"] = val(x.X)
	default:
		j["op"] = fmt.Sprintf("?%T", in)
	}
	return j
}

func dumpFunc(f *ssa.Function) J {
	j := J{"name": funcName(f), "pos": pos(f.Pos()), "sig": tname(f.Signature), "synthetic": f.Synthetic}
	if f.Pkg != nil {
		j["pkg"] = f.Pkg.Pkg.Path()
	}
	if f.Parent() != nil {
		j["parent"] = funcName(f.Parent())
	}
	var ps []J
	for _, p := range f.Params {
		ps = append(ps, J{"n": p.Name(), "t": tname(p.Type())})
	}
	j["params"] = ps
	var fv []J
	for _, p := range f.FreeVars {
		fv = append(fv, J{"n": p.Name(), "t": tname(p.Type())})
	}
	j["freevars"] = fv
	var tps []string
	if tp := f.TypeParams(); tp != nil {
		for i := 0; i < tp.Len(); i++ {
			tps = append(tps, tname(tp.At(i)))
		}
	}
	j["typeparams"] = tps
	var rn []string
	res := f.Signature.Results()
	for i := 0; i < res.Len(); i++ {
		rn = append(rn, res.At(i).Name())
	}
	j["resultnames"] = rn
	j["hasrecv"] = f.Signature.Recv() != nil
	var anon []string
	for _, a := range f.AnonFuncs {
		anon = append(anon, funcName(a))
	}
	j["anon"] = anon
	var bs []J
	for _, b := range f.Blocks {
		bj := J{"index": b.Index, "comment": b.Comment}
		var pr, su []int
		for _, p := range b.Preds {
			pr = append(pr, p.Index)
		}
		for _, s := range b.Succs {
			su = append(su, s.Index)
		}
		bj["preds"] = pr
		bj["succs"] = su
		if d := b.Idom(); d != nil {
			bj["idom"] = d.Index
		}
		var is []J
		for _, in := range b.Instrs {
			is = append(is, instr(in))
		}
		bj["instrs"] = is
		bs = append(bs, bj)
	}
	j["blocks"] = bs
	if f.Syntax() != nil {
		sp := fset.Position(f.Syntax().Pos())
		ep := fset.Position(f.Syntax().End())
		j["file"] = sp.Filename
		j["line"] = sp.Line
		j["endline"] = ep.Line
	}
	return j
}

func main() {
	dir := flag.String("dir", ".", "module directory")
	tags := flag.String("tags", "verif", "build tags")
	flag.Parse()
	pats := flag.Args()
	if len(pats) == 0 {
		pats = []string{"./..."}
	}
	fset = token.NewFileSet()
	cfg := &packages.Config{
		Mode:       packages.LoadAllSyntax,
		Dir:        *dir,
		Fset:       fset,
		BuildFlags: []string{"-tags=" + *tags},
		Tests:      false,
	}
	pkgs, err := packages.Load(cfg, pats...)
	if err != nil {
		fmt.Fprintln(os.Stderr, "load:", err)
		os.Exit(2)
	}
	nerr := 0
	packages.Visit(pkgs, nil, func(p *packages.Package) {
		for _, e := range p.Errors {
			fmt.Fprintln(os.Stderr, "error:", e)
			nerr++
		}
	})
	if nerr > 0 {
		os.Exit(2)
	}
	prog, spkgs := ssautil.AllPackages(pkgs, ssa.GlobalDebug)
	prog.Build()
	want := map[*ssa.Package]bool{}
	for _, sp := range spkgs {
		if sp != nil {
			want[sp] = true
		}
	}
	out := J{}
	funcs := J{}
	all := ssautil.AllFunctions(prog)
	var names []string
	byName := map[string]*ssa.Function{}
	for f := range all {
		p := f.Pkg
		if p == nil && f.Origin() != nil {
			continue // instantiation; generic origin is dumped
		}
		if p == nil || !want[p] {
			continue
		}
		if f.Blocks == nil {
			// external (linkname / assembly) function: record the signature only
			n := funcName(f)
			names = append(names, n)
			byName[n] = f
			continue
		}
		n := funcName(f)
		names = append(names, n)
		byName[n] = f
	}
	// Generic functions are not members reachable through AllFunctions unless instantiated;
	// walk package members and method sets explicitly.
	for sp := range want {
		for _, mem := range sp.Members {
			switch m := mem.(type) {
			case *ssa.Function:
				addFn(m, byName, &names)
			case *ssa.Type:
				if nt, ok := m.Type().(*types.Named); ok {
					for i := 0; i < nt.NumMethods(); i++ {
						if fn := prog.FuncValue(nt.Method(i)); fn != nil {
							addFn(fn, byName, &names)
						}
					}
				}
			}
		}
	}
	sort.Strings(names)
	for _, n := range names {
		funcs[n] = dumpFunc(byName[n])
	}
	out["functions"] = funcs
	// comment-only contract files and globals
	var files []J
	globals := J{}
	for sp := range want {
		for n, mem := range sp.Members {
			if g, ok := mem.(*ssa.Global); ok {
				globals[g.String()] = J{"name": n, "type": tname(g.Type())}
			}
			if c, ok := mem.(*ssa.NamedConst); ok {
				globals["const:"+sp.Pkg.Path()+"."+n] = J{"name": n, "type": tname(c.Type()), "value": c.Value.Value.ExactString()}
			}
		}
	}
	for _, p := range pkgs {
		for i, f := range p.Syntax {
			fn := p.CompiledGoFiles[i]
			var cm []J
			for _, cg := range f.Comments {
				for _, c := range cg.List {
					if strings.HasPrefix(c.Text, "//@") {
						cm = append(cm, J{"line": fset.Position(c.Pos()).Line, "text": c.Text})
					}
				}
			}
			files = append(files, J{"pkg": p.PkgPath, "file": fn, "contracts": cm})
		}
	}
	out["files"] = files
	out["globals"] = globals
	out["types"] = typeTab
	enc := json.NewEncoder(os.Stdout)
	if err := enc.Encode(out); err != nil {
		fmt.Fprintln(os.Stderr, err)
		os.Exit(2)
	}
}

func addFn(f *ssa.Function, byName map[string]*ssa.Function, names *[]string) {
	n := funcName(f)
	if _, ok := byName[n]; ok {
		return
	}
	byName[n] = f
	*names = append(*names, n)
	for _, a := range f.AnonFuncs {
		addFn(a, byName, names)
	}
}
