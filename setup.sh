#!/bin/sh
# Build the SSA dumper offline. Everything else is Python run from source.
set -e
cd "$(dirname "$0")"
export GOFLAGS=-mod=mod GOPROXY=off GOSUMDB=off GOTOOLCHAIN=local
mkdir -p bin evidence
(cd govc/ssajson && go build -o ../../bin/ssajson .)
echo "setup ok"
